//go:build verif

package dht

import (
	"fmt"
	"sort"
	"testing"
	"testing/synctest"
	"time"

	"github.com/ipfs/go-cid"
	"github.com/libp2p/go-libp2p/core/peer"
	ma "github.com/multiformats/go-multiaddr"
	"google.golang.org/protobuf/proto"

	"github.com/libp2p/go-libp2p-kad-dht/internal/vmc"
	"github.com/libp2p/go-libp2p-kad-dht/internal/vmc/jds"
	"github.com/libp2p/go-libp2p-kad-dht/internal/vmc/kid"
	"github.com/libp2p/go-libp2p-kad-dht/internal/vmc/sim"
	pb "github.com/libp2p/go-libp2p-kad-dht/pb"
	"github.com/libp2p/go-libp2p-kad-dht/records"
)

// C07 part "node": histories of ADD_PROVIDER / GET_PROVIDERS on inbound streams, local Provide,
// local provider queries and clock advances on a real server-mode IpfsDHT (provider validity V,
// GC every V/3 or off). Model: map provider -> time of its last *acceptable* addition (sent by the
// provider itself with at least one address, or a local Provide). After every query: exactly the
// providers added at most V ago are listed (a provider whose age is within 1 s of V may go either
// way), no duplicates, nobody who was never acceptably added.

const c07nV = 1000 * time.Second

type c07ncfg struct {
	depth int
	gc    time.Duration
}

func c07nConfigs(tier string) []vmc.Cfg {
	d := 4
	if tier == "thorough" {
		d = 5
	}
	var out []vmc.Cfg
	for _, gc := range []time.Duration{c07nV / 3, 24 * time.Hour} {
		out = append(out, vmc.Cfg{Name: fmt.Sprintf("node/depth%d/gc=%v", d, gc), Data: c07ncfg{d, gc}})
	}
	return out
}

func TestVMC_C07node(t *testing.T) {
	vmc.Main(t, vmc.Harness{ID: "C07", Configs: c07nConfigs, Run: c07nRun, Bubble: true, ShardSubtree: true})
}

func c07nRun(x *vmc.X, cfg vmc.Cfg) {
	c := cfg.Data.(c07ncfg)
	w := sim.NewWorld(lhSelf, 3)
	pX, pY, pZ := kid.Peer("000", 0), kid.Peer("100", 0), kid.Peer("110", 0)
	w.Add("X", pX, sim.BHonest)
	w.Add("Y", pY, sim.BHonest)
	w.Add("Z", pZ, sim.BHonest)
	w.Far = kid.Peer("111", 3)
	store := jds.New()
	l, err := newLH(x, w, lhParams{k: 3, alpha: 1, beta: 1, mode: ModeServer, modeSet: true,
		opts: []Option{Datastore(store), ProviderManagerOpts(records.ProvideValidity(c07nV), records.CleanupInterval(c.gc))}})
	if err != nil {
		x.Failf("C07/setup", "%v", err)
		return
	}
	defer l.close()
	l.net.Instant = true
	l.h.SetAddrs([]ma.Multiaddr{ma.StringCast("/ip4/8.8.8.8/tcp/4001")})
	env := &c09env{x: x, l: l}
	mhk := kid.Mh("000", 0)
	pcid := cid.NewCidV1(cid.Raw, mhk)
	addr := ma.StringCast("/ip4/9.9.9.9/tcp/4001")
	t0 := time.Now()
	now := func() time.Duration { return time.Since(t0) }
	last := map[peer.ID]time.Duration{}
	name := func(p peer.ID) string {
		if p == lhSelf {
			return "self"
		}
		return w.Name(p)
	}
	var hist []string
	check := func(what string, listed []peer.ID) bool {
		t := now()
		seen := map[peer.ID]bool{}
		for _, p := range listed {
			if seen[p] {
				x.Failf("C07/node/duplicate", "%v: %s lists %s twice", hist, what, name(p))
				return false
			}
			seen[p] = true
			at, ok := last[p]
			if !ok {
				x.Failf("C07/node/never-added", "%v: %s lists %s, which was never acceptably added for this key", hist, what, name(p))
				return false
			}
			if t-at > c07nV {
				x.Failf("C07/node/served-expired", "%v: %s lists %s at %v, last added at %v (validity %v)", hist, what, name(p), t, at, c07nV)
				return false
			}
		}
		for p, at := range last {
			if t-at <= c07nV-time.Second && !seen[p] {
				x.Failf("C07/node/valid-provider-missing", "%v: %s at %v does not list %s, added at %v (validity %v); listed: %d", hist, what, t, name(p), at, c07nV, len(listed))
				return false
			}
		}
		return true
	}
	addMsg := func(named peer.ID, withAddr bool) []byte {
		ai := peer.AddrInfo{ID: named}
		if withAddr {
			ai.Addrs = []ma.Multiaddr{addr}
		}
		m := pb.NewMessage(pb.Message_ADD_PROVIDER, mhk, 0)
		m.ProviderPeers = pb.RawPeerInfosToPBPeers([]peer.AddrInfo{ai})
		b, _ := proto.Marshal(m)
		return frame(b)
	}
	type op struct {
		name string
		run  func() bool
	}
	remoteAdd := func(n string, from, named peer.ID, withAddr, acceptable bool) op {
		return op{n, func() bool {
			_, _, _, handled, _ := env.exchange(from, addMsg(named, withAddr))
			if !handled {
				x.Failf("C07/node/no-handler", "server mode without a handler")
				return false
			}
			if acceptable {
				last[named] = now()
			}
			return true
		}}
	}
	ops := []op{
		remoteAdd("add(X by X)", pX, pX, true, true),
		remoteAdd("add(Y by Y)", pY, pY, true, true),
		remoteAdd("add(Y by X)", pX, pY, true, false),
		remoteAdd("add(X by X, no address)", pX, pX, false, false),
		{"provide(local)", func() bool {
			if err := l.d.Provide(l.ctx, pcid, false); err != nil {
				x.Failf("C07/node/provide-error", "%v: %v", hist, err)
				return false
			}
			last[lhSelf] = now()
			return true
		}},
		{"remoteGet(by X)", func() bool {
			// the requester may itself be a provider of the key: it is listed like everybody else
			b, _ := proto.Marshal(pb.NewMessage(pb.Message_GET_PROVIDERS, mhk, 0))
			replies, _, reset, handled, _ := env.exchange(pX, frame(b))
			if !handled || reset || len(replies) != 1 {
				x.Failf("C07/node/get-not-answered", "%v: GET_PROVIDERS got %d replies (reset=%v)", hist, len(replies), reset)
				return false
			}
			var ids []peer.ID
			for _, pp := range replies[0].GetProviderPeers() {
				ids = append(ids, peer.ID(pp.GetId()))
			}
			return check("remote GET_PROVIDERS asked by provider X", ids)
		}},
		{"remoteGet", func() bool {
			b, _ := proto.Marshal(pb.NewMessage(pb.Message_GET_PROVIDERS, mhk, 0))
			replies, _, reset, handled, _ := env.exchange(pZ, frame(b))
			if !handled || reset || len(replies) != 1 {
				x.Failf("C07/node/get-not-answered", "%v: GET_PROVIDERS got %d replies (reset=%v)", hist, len(replies), reset)
				return false
			}
			var ids []peer.ID
			for _, pp := range replies[0].GetProviderPeers() {
				ids = append(ids, peer.ID(pp.GetId()))
			}
			return check("remote GET_PROVIDERS", ids)
		}},
		{"localGet", func() bool {
			provs, err := l.d.providerStore.GetProviders(l.ctx, mhk)
			if err != nil {
				x.Failf("C07/node/local-get-error", "%v: %v", hist, err)
				return false
			}
			var ids []peer.ID
			for _, p := range provs {
				ids = append(ids, p.ID)
			}
			return check("local provider query", ids)
		}},
		{"clock+V/2+1ns", func() bool { time.Sleep(c07nV/2 + 1); synctest.Wait(); return true }},
		{"clock+V/2-2s", func() bool { time.Sleep(c07nV/2 - 2*time.Second); synctest.Wait(); return true }},
	}
	for d := 0; d < c.depth; d++ {
		i := x.Choose(len(ops)+1, vmc.Free, "op")
		if i == len(ops) {
			break
		}
		time.Sleep(time.Second)
		hist = append(hist, ops[i].name)
		x.Obs("%s", ops[i].name)
		if !ops[i].run() {
			return
		}
	}
	// final queries, both ways
	if !ops[5].run() || !ops[6].run() || !ops[7].run() {
		return
	}
	var l2 []string
	for p := range last {
		l2 = append(l2, name(p))
	}
	sort.Strings(l2)
	x.Eval(len(last) > 0)
	x.Outcome("added=%v", l2)
}
