//go:build verif

package dht

import (
	"context"
	"fmt"
	"sort"
	"strings"
	"testing"
	"testing/synctest"
	"time"

	"github.com/ipfs/go-cid"
	"github.com/libp2p/go-libp2p/core/peer"
	ma "github.com/multiformats/go-multiaddr"

	"github.com/libp2p/go-libp2p-kad-dht/internal/vmc"
	"github.com/libp2p/go-libp2p-kad-dht/internal/vmc/kid"
	"github.com/libp2p/go-libp2p-kad-dht/internal/vmc/sim"
)

// C03: every routing operation terminates, honours cancellation, closes its channels, never
// panics and leaves nothing running after Close - for every failing/silent subset, every arrival
// order and every cancellation instant.

type c03cfg struct {
	dist       string // "all": every peer holds a record / provider list; "not-nearest": all but the nearest peer
	op         string
	n          int
	k, a, b    int
	behaviours []string
	instant    bool // peers answer (or fail) the moment they are asked: several answers are processed in one step
}

var c03Ops = []string{
	"closest", "findpeer-known", "findpeer-unknown",
	"getvalue-q0", "getvalue-q1", "getvalue-q2", "search-q1-first-then-cancel",
	"findprov-c0", "findprov-c1", "findprov-c2", "findprov-c1-first-then-cancel",
	"putvalue", "provide", "provide-deadline5s", "provide-deadline30s", "optprovide",
	// the consumer never reads the result channel: when every answer has been delivered (results are waiting to be
	// handed over) it cancels and walks away
	"findprov-c0-late-cancel-unread", "search-q0-late-cancel-unread",
}

func c03Configs(tier string) []vmc.Cfg {
	beh := []string{sim.BHonest, sim.BDialFail, sim.BReqFail, sim.BSilent}
	type kab struct{ k, a, b int }
	kabs := []kab{{3, 3, 2}, {3, 1, 1}}
	ns := []int{3, 4}
	if tier == "thorough" {
		kabs = []kab{{2, 2, 1}, {3, 3, 2}, {3, 1, 1}, {3, 2, 1}}
		ns = []int{3, 4}
	}
	var out []vmc.Cfg
	for _, n := range ns {
		total := 1
		for i := 0; i < n; i++ {
			total *= len(beh)
		}
		for _, kb := range kabs {
			for _, op := range c03Ops {
				for m := 0; m < total; m++ {
					as := make([]string, n)
					mm := m
					nonHonest := 0
					for i := 0; i < n; i++ {
						as[i] = beh[mm%len(beh)]
						if as[i] != sim.BHonest {
							nonHonest++
						}
						mm /= len(beh)
					}
					if tier != "thorough" && n > 3 && nonHonest > 1 {
						continue
					}
					for _, dist := range []string{"all", "not-nearest"} {
						stateful := strings.HasPrefix(op, "getvalue") || strings.HasPrefix(op, "search") || strings.HasPrefix(op, "findprov")
						if dist == "not-nearest" && !stateful {
							continue
						}
						c := c03cfg{op: op, n: n, k: kb.k, a: kb.a, b: kb.b, behaviours: as, dist: dist}
						out = append(out, vmc.Cfg{Name: fmt.Sprintf("%s/%s/n%d/k%da%db%d/%s", op, dist, n, kb.k, kb.a, kb.b, strings.Join(as, ",")), Budget: 1, Data: c})
						if !contains(as, sim.BSilent) {
							ci := c
							ci.instant = true
							out = append(out, vmc.Cfg{Name: fmt.Sprintf("%s/%s/n%d/k%da%db%d/%s/instant", op, dist, n, kb.k, kb.a, kb.b, strings.Join(as, ",")), Budget: 1, Data: ci})
						}
					}
				}
			}
		}
	}
	return out
}

func TestVMC_C03(t *testing.T) {
	vmc.Main(t, vmc.Harness{ID: "C03", Configs: c03Configs, Run: c03Run, Bubble: true})
}

var c03ProvAddr = ma.StringCast("/ip4/9.9.9.9/tcp/4001")

func c03Run(x *vmc.X, cfg vmc.Cfg) {
	c := cfg.Data.(c03cfg)
	cc := c01cfg{n: c.n, k: c.k, a: c.a, b: c.b, behaviours: c.behaviours, knowledge: "full"}
	w, ids := c01World(cc)
	vkey := kid.KeyWithPrefix("v", "000", 0)
	mh := kid.Mh("000", 0)
	pcid := cid.NewCidV1(cid.Raw, mh)
	provX, provY := kid.Peer("101", 5), kid.Peer("101", 6)
	for i, id := range ids {
		p := w.Peers[id]
		if c.dist == "not-nearest" && i == 0 {
			continue // peer a (cell 000) is the nearest to both keys
		}
		p.Records[vkey] = sim.Val(1+i%3, fmt.Sprintf("from-%s", p.Name))
		p.Providers[string(mh)] = []peer.AddrInfo{{ID: provX, Addrs: []ma.Multiaddr{c03ProvAddr}}}
		if i%2 == 1 {
			p.Providers[string(mh)] = append(p.Providers[string(mh)], peer.AddrInfo{ID: provY})
		}
	}
	var opts []Option
	if c.op == "optprovide" {
		opts = append(opts, EnableOptimisticProvide())
	}
	l, err := newLH(x, w, lhParams{k: c.k, alpha: c.a, beta: c.b, opts: opts})
	if err != nil {
		x.Failf("C03/setup", "%v", err)
		return
	}
	closed := false
	defer func() {
		if !closed {
			l.close()
		}
	}()
	l.h.SetAddrs([]ma.Multiaddr{ma.StringCast("/ip4/8.8.8.8/tcp/4001")})
	l.seed(ids)
	l.net.Instant = c.instant
	if c.op == "optprovide" {
		// warm the network-size estimator (in-package seam) with measurements that suggest a *large*
		// network (tracked peers share 12 bits with their key), so that the optimistic thresholds are
		// small and the simulated peers are not "close enough" to short-circuit the lookup.
		for i := 0; i < 8; i++ {
			k := kid.KeyWithPrefix("w", "", i)
			pre := kid.BitsOf([]byte(k), 12)
			var ps []peer.ID
			for j := 0; j < c.k; j++ {
				ps = append(ps, kid.Peer(pre, j))
			}
			if err := l.d.nsEstimator.Track(k, sim.SortByDistance(ps, k)); err != nil {
				x.Failf("C03/setup", "estimator: %v", err)
				return
			}
		}
		if ns, err := l.d.nsEstimator.NetworkSize(); err != nil || ns < 1000 {
			x.Failf("C03/setup", "estimator not ready: %v %v", ns, err)
			return
		}
	}

	ctx, cancel := context.WithCancel(l.ctx)
	defer cancel()
	readNow, released := make(chan struct{}), false
	doneCh := make(chan string, 1)
	run := func(f func() string) { go func() { doneCh <- f() }() }
	switch {
	case c.op == "closest":
		run(func() string {
			ps, err := l.d.GetClosestPeers(ctx, vkey)
			return fmt.Sprintf("%v err=%v", w.Names(ps), err != nil)
		})
	case c.op == "findpeer-known":
		run(func() string {
			pi, err := l.d.FindPeer(ctx, ids[len(ids)-1])
			return fmt.Sprintf("%s err=%v", w.Name(pi.ID), err != nil)
		})
	case c.op == "findpeer-unknown":
		run(func() string {
			pi, err := l.d.FindPeer(ctx, kid.Peer("000", 7))
			return fmt.Sprintf("%s err=%v", w.Name(pi.ID), err != nil)
		})
	case strings.HasPrefix(c.op, "getvalue-q"):
		q := int(c.op[len(c.op)-1] - '0')
		run(func() string {
			v, err := l.d.GetValue(ctx, vkey, Quorum(q))
			return fmt.Sprintf("%q err=%v", v, err != nil)
		})
	case c.op == "search-q1-first-then-cancel":
		run(func() string {
			ch, err := l.d.SearchValue(ctx, vkey, Quorum(1))
			if err != nil {
				return "err"
			}
			n := 0
			for range ch {
				n++
				if n == 1 {
					cancel()
				}
			}
			return fmt.Sprintf("values=%d", n)
		})
	case c.op == "findprov-c0-late-cancel-unread":
		run(func() string {
			_ = l.d.FindProvidersAsync(ctx, pcid, 0)
			select {
			case <-readNow:
			case <-ctx.Done():
			}
			cancel()
			return "unread"
		})
	case c.op == "search-q0-late-cancel-unread":
		run(func() string {
			_, err := l.d.SearchValue(ctx, vkey, Quorum(0))
			select {
			case <-readNow:
			case <-ctx.Done():
			}
			cancel()
			return fmt.Sprintf("unread err=%v", err != nil)
		})
	case strings.HasPrefix(c.op, "findprov-c"):
		count := int(c.op[len("findprov-c")] - '0')
		stop := strings.HasSuffix(c.op, "first-then-cancel")
		run(func() string {
			var got []string
			for ai := range l.d.FindProvidersAsync(ctx, pcid, count) {
				got = append(got, w.Name(ai.ID))
				if stop && len(got) == 1 {
					cancel()
				}
			}
			sort.Strings(got)
			return fmt.Sprint(got)
		})
	case c.op == "putvalue":
		run(func() string { return fmt.Sprintf("err=%v", l.d.PutValue(ctx, vkey, sim.Val(5, "mine")) != nil) })
	case c.op == "provide" || c.op == "optprovide":
		run(func() string { return fmt.Sprintf("err=%v", l.d.Provide(ctx, pcid, true) != nil) })
	case strings.HasPrefix(c.op, "provide-deadline"):
		d := 5 * time.Second
		if strings.HasSuffix(c.op, "30s") {
			d = 30 * time.Second
		}
		dctx, dcancel := context.WithTimeout(ctx, d)
		defer dcancel()
		run(func() string { return fmt.Sprintf("err=%v", l.d.Provide(dctx, pcid, true) != nil) })
	}

	result := ""
	isDone := func() bool {
		select {
		case result = <-doneCh:
			return true
		default:
			return false
		}
	}
	cancelled := false
	idle := 0
	for {
		synctest.Wait()
		l.drain()
		if isDone() {
			break
		}
		pend := l.net.PendingEvents()
		if len(pend) == 0 && !released {
			released = true
			close(readNow)
			continue
		}
		if len(pend) == 0 {
			// nothing can be delivered: only the operation's own timers can make progress
			idle++
			if idle > 6 {
				x.Failf("C03/hang/"+c.op, "%s has not returned although every contacted peer has answered, failed or timed out and 3 virtual minutes have passed (cancelled=%v); goroutines: %v", c.op, cancelled, vmc.LeakedGoroutines())
				closed = true // the DHT is wedged: do not wait for Close in the deferred clean-up
				return
			}
			time.Sleep(31 * time.Second)
			continue
		}
		idle = 0
		if l.step > 80 {
			x.Failf("C03/runaway", "more than 80 deliveries")
			return
		}
		labels := make([]string, len(pend))
		for i, p := range pend {
			labels[i] = l.net.Label(p)
		}
		n := len(pend)
		costs := make([]int, n, n+3)
		extra := []string{}
		if !cancelled {
			extra = append(extra, "cancel", "+6s", "+31s")
			costs = append(costs, 1, 1, 1)
		}
		i := x.ChooseCost(n+len(extra), "deliver "+fmt.Sprint(labels)+" "+fmt.Sprint(extra), costs)
		if i < n {
			l.step++
			time.Sleep(7 * time.Millisecond) // every delivery takes some virtual time: timers never coincide
			l.net.Deliver(pend[i])
			continue
		}
		switch extra[i-n] {
		case "cancel":
			cancelled = true
			cancel()
			synctest.Wait()
			if !isDone() {
				time.Sleep(time.Second)
				synctest.Wait()
				if !isDone() {
					x.Failf("C03/cancel-not-honoured/"+c.op, "%s has not returned 1 virtual second after its context was cancelled (pending: %d); goroutines: %v", c.op, len(l.net.PendingEvents()), vmc.LeakedGoroutines())
					closed = true
					return
				}
			}
			doneCh <- result
		case "+6s":
			cancelled = true // budget spent
			time.Sleep(6 * time.Second)
		case "+31s":
			cancelled = true
			time.Sleep(31 * time.Second)
		}
	}
	x.Obs("%s -> %s", c.op, result)
	x.Outcome("%s", result)
	// (v) background work ends within the operation's own timeouts or at Close
	// what is still in flight is answered as the world prescribes (late answers), in canonical order
	for round := 0; round < 50; round++ {
		pend := l.net.PendingEvents()
		if len(pend) == 0 {
			break
		}
		time.Sleep(7 * time.Millisecond)
		l.net.Deliver(pend[0])
		synctest.Wait()
	}
	time.Sleep(2 * time.Minute)
	synctest.Wait()
	for _, p := range l.net.PendingEvents() {
		l.net.DeliverResult(p, nil, sim.ErrSimTimeout)
	}
	synctest.Wait()
	cancelCaller := false // the caller's context is NOT cancelled: the operation returned by itself
	_ = cancelCaller
	closed = true
	l.cancelEventsOnly()
	l.d.Close()
	synctest.Wait()
	if left := vmc.LeakedGoroutines(); len(left) > 0 {
		// the fake host's peerstore GC is still running at this point: closed below
		var real []string
		for _, g := range left {
			// not part of the component under test: the fake host's peerstore GC (closed below), the
			// harness's own lookup-event registration and the synctest bubble root
			if !strings.Contains(g, "pstoremem") && !strings.Contains(g, "waitThenClose") && !strings.Contains(g, "synctest.") {
				real = append(real, g)
			}
		}
		if len(real) > 0 {
			x.Failf("C03/leak/"+c.op+"/"+real[0], "after %s returned (caller context never cancelled = %v), 2 virtual minutes and Close, %d goroutine(s) are still blocked: %v", c.op, !cancelled, len(real), real)
			cancel()
		}
	}
	cancel()
	l.cancel()
	l.h.Close()
	synctest.Wait()
}
