//go:build verif

package dht

import (
	"bytes"
	"encoding/binary"
	"fmt"
	"sort"
	"strings"
	"testing"
	"testing/synctest"

	recpb "github.com/libp2p/go-libp2p-record/pb"
	"github.com/libp2p/go-libp2p/core/network"
	"github.com/libp2p/go-libp2p/core/peer"
	"github.com/libp2p/go-libp2p/core/peerstore"
	"github.com/libp2p/go-libp2p/core/protocol"
	ma "github.com/multiformats/go-multiaddr"
	manet "github.com/multiformats/go-multiaddr/net"
	"google.golang.org/protobuf/encoding/protowire"
	"google.golang.org/protobuf/proto"

	"github.com/libp2p/go-libp2p-kad-dht/internal/vmc"
	"github.com/libp2p/go-libp2p-kad-dht/internal/vmc/kid"
	"github.com/libp2p/go-libp2p-kad-dht/internal/vmc/sim"
	pb "github.com/libp2p/go-libp2p-kad-dht/pb"
)

// C09: a server answers any request safely, within protocol bounds (exhaustive message product
// against several server states, through the registered stream handler on a fake stream).

const c09K = 3
const c09Proto = protocol.ID("/sim/kad/1.0.0")

type c09cfg struct {
	state     string // "empty", "small", "full", "huge", "huge512" (exactly message-limit / record-limit providers)
	mode      string // "server", "client"
	chunk, of int
	bytesOnly bool
}

func c09Configs(tier string) []vmc.Cfg {
	var out []vmc.Cfg
	for _, st := range []string{"empty", "small", "full", "huge", "huge512"} {
		chunks := 8
		if strings.HasPrefix(st, "huge") {
			chunks = 2
		}
		for i := 0; i < chunks; i++ {
			out = append(out, vmc.Cfg{Name: fmt.Sprintf("messages/%s/server/%d-of-%d", st, i, chunks), Data: c09cfg{st, "server", i, chunks, false}})
		}
	}
	out = append(out, vmc.Cfg{Name: "messages/full/client/0-of-1", Data: c09cfg{"full", "client", 0, 1, false}})
	out = append(out, vmc.Cfg{Name: "bytes/full/server", Data: c09cfg{"full", "server", 0, 1, true}})
	return out
}

func TestVMC_C09(t *testing.T) {
	vmc.Main(t, vmc.Harness{ID: "C09", Configs: c09Configs, Run: c09Run, Bubble: true})
}

type c09env struct {
	x        *vmc.X
	l        *lh
	members  []peer.ID
	inRT     peer.ID // a requester that is a routing-table member
	outsider peer.ID // a requester that is not
	second   peer.ID
	vkey     string
	pkey     []byte
	stored   []byte
}

func frame(b []byte) []byte {
	var l [binary.MaxVarintLen64]byte
	n := binary.PutUvarint(l[:], uint64(len(b)))
	return append(l[:n:n], b...)
}

// exchange opens an inbound stream from `from`, writes raw bytes, and returns the framed replies
// the server wrote and whether the stream was reset. handled=false: no handler registered.
func (e *c09env) exchange(from peer.ID, raw []byte) (replies []*pb.Message, sizes []int, reset bool, handled bool, garbage bool) {
	s := e.l.h.Inbound(from, c09Proto)
	if s == nil {
		return nil, nil, false, false, false
	}
	_, _ = s.Write(raw)
	synctest.Wait()
	buf := s.Buffered()
	reset = s.IsReset()
	for len(buf) > 0 {
		l, n := binary.Uvarint(buf)
		if n <= 0 || int(l) > len(buf)-n {
			garbage = true
			break
		}
		m := new(pb.Message)
		if err := proto.Unmarshal(buf[n:n+int(l)], m); err != nil {
			garbage = true
			break
		}
		replies = append(replies, m)
		sizes = append(sizes, int(l))
		buf = buf[n+int(l):]
	}
	if !reset {
		_ = s.CloseWrite()
		synctest.Wait()
	}
	_ = s.Reset()
	synctest.Wait()
	return replies, sizes, reset, true, garbage
}

func c09PubAddr(i int) ma.Multiaddr {
	return ma.StringCast(fmt.Sprintf("/ip4/%d.%d.%d.1/tcp/4001", 11+i/65536, (i/256)%256, i%256))
}

func c09Run(x *vmc.X, cfg vmc.Cfg) {
	c := cfg.Data.(c09cfg)
	w := sim.NewWorld(lhSelf, c09K)
	mode := ModeServer
	if c.mode == "client" {
		mode = ModeClient
	}
	noLoopback := func(in []ma.Multiaddr) []ma.Multiaddr {
		var out []ma.Multiaddr
		for _, a := range in {
			if !manet.IsIPLoopback(a) {
				out = append(out, a)
			}
		}
		return out
	}
	l, err := newLH(x, w, lhParams{k: c09K, alpha: 2, beta: 1, mode: mode, opts: []Option{AddressFilter(noLoopback)}})
	if err != nil {
		x.Failf("C09/setup", "%v", err)
		return
	}
	defer l.close()
	e := &c09env{x: x, l: l, vkey: kid.KeyWithPrefix("v", "000", 0), pkey: kid.Mh("000", 0)}
	e.inRT, e.outsider, e.second = kid.Peer("000", 1), kid.Peer("111", 9), kid.Peer("110", 9)
	// server state
	nMembers := map[string]int{"empty": 0, "small": 1, "full": c09K + 2, "huge": c09K + 2, "huge512": c09K + 2}[c.state]
	cells := []string{"000", "001", "010", "100", "110", "111"}
	for i := 0; i < nMembers; i++ {
		id := kid.Peer(cells[i], 1)
		e.members = append(e.members, id)
		n := 1
		if strings.HasPrefix(c.state, "huge") {
			n = 900 // ~9 KiB of addresses per member
		}
		if n > 1 && i == 1 {
			// the same weight in a handful of addresses (seed C09-i): five /dns4 names of ~2 KiB each, so a bound that
			// looks at the number of addresses instead of their bytes lets a ~10 KiB record through
			for j := 0; j < 5; j++ {
				label := fmt.Sprintf("m%d-%d-", i, j)
				label += strings.Repeat("y", 2000-len(label))
				l.h.Peerstore().AddAddr(id, ma.StringCast("/dns4/"+label+"/tcp/1"), peerstore.PermanentAddrTTL)
			}
			continue
		}
		for j := 0; j < n; j++ {
			l.h.Peerstore().AddAddr(id, c09PubAddr(i*1000+j), peerstore.PermanentAddrTTL)
		}
	}
	l.seed(e.members)
	if len(l.d.RoutingTable().ListPeers()) != nMembers {
		x.Failf("C09/setup", "only %d of %d members admitted", len(l.d.RoutingTable().ListPeers()), nMembers)
		return
	}
	e.stored = sim.Val(5, "stored")
	if err := l.d.valueStore.Put(l.ctx, e.vkey, sim.MakeRecord(e.vkey, e.stored)); err != nil {
		x.Failf("C09/setup", "%v", err)
		return
	}
	// huge512: (almost) as many providers as maximal records fit into the transport limit by division (4 MiB / 8 KiB = 512;
	// two more are added by the ADD_PROVIDER requests of the run), each with a maximal record - the per-record framing and
	// the closer peers make the sum exceed the limit
	nProv := map[string]int{"empty": 0, "small": 3, "full": 3, "huge": 520, "huge512": 510}[c.state]
	for i := 0; i < nProv; i++ {
		ai := peer.AddrInfo{ID: kid.Peer("1", 100+i)}
		if strings.HasPrefix(c.state, "huge") {
			// the provider store keeps a bounded number of addresses per provider, so a record of exactly 8 KiB needs long
			// addresses: four /dns4 names of 2030, 2030, 2029 and 2029 bytes (34-byte id, connection flag: 2+34 + 2 + 4*3 + 8118 + 4*6 = 8192)
			for j := 0; j < 4; j++ {
				label := fmt.Sprintf("p%04d-%d-", i, j)
				label += strings.Repeat("x", 2030-j/2-len(label))
				ai.Addrs = append(ai.Addrs, ma.StringCast("/dns4/"+label+"/tcp/1"))
			}
		} else {
			ai.Addrs = append(ai.Addrs, c09PubAddr(100000+i*1000))
		}
		if err := l.d.providerStore.AddProvider(l.ctx, e.pkey, ai); err != nil {
			x.Failf("C09/setup", "%v", err)
			return
		}
	}
	if c.bytesOnly {
		c09Bytes(e)
		return
	}
	c09Messages(e, c)
}

func (e *c09env) stillServing(after string) bool {
	m := pb.NewMessage(pb.Message_FIND_NODE, []byte(e.inRT), 0)
	b, _ := proto.Marshal(m)
	replies, _, reset, handled, garbage := e.exchange(e.second, frame(b))
	if !handled || reset || garbage || len(replies) != 1 {
		e.x.Failf("C09/stopped-serving", "after %s a valid FIND_NODE from another peer got handled=%v reset=%v replies=%d", after, handled, reset, len(replies))
		return false
	}
	return true
}

func c09Peers(kind string, sender peer.ID) []*pb.Message_Peer {
	good := c09PubAddr(7).Bytes()
	loop := ma.StringCast("/ip4/127.0.0.1/tcp/4001").Bytes()
	switch kind {
	case "sender+addr":
		return []*pb.Message_Peer{{Id: []byte(sender), Addrs: [][]byte{good}}}
	case "sender+loopback+addr":
		return []*pb.Message_Peer{{Id: []byte(sender), Addrs: [][]byte{loop, good}}}
	case "other-id":
		return []*pb.Message_Peer{{Id: []byte(kid.Peer("101", 77)), Addrs: [][]byte{good}}}
	case "sender-no-addr":
		return []*pb.Message_Peer{{Id: []byte(sender)}}
	case "sender-bad-addr":
		return []*pb.Message_Peer{{Id: []byte(sender), Addrs: [][]byte{{0xff, 0xff}}}}
	case "sender-only-loopback":
		return []*pb.Message_Peer{{Id: []byte(sender), Addrs: [][]byte{loop}}}
	case "100-records":
		var out []*pb.Message_Peer
		for i := 0; i < 100; i++ {
			out = append(out, &pb.Message_Peer{Id: []byte(kid.Peer("101", 200+i)), Addrs: [][]byte{good}})
		}
		return append(out, &pb.Message_Peer{Id: []byte(sender), Addrs: [][]byte{good}})
	case "sender-9KiB":
		var addrs [][]byte
		for i := 0; i < 900; i++ {
			addrs = append(addrs, c09PubAddr(500000+i).Bytes())
		}
		return []*pb.Message_Peer{{Id: []byte(sender), Addrs: addrs}}
	}
	return nil
}

func c09Messages(e *c09env, c c09cfg) {
	_ = e.x
	types := []int32{0, 1, 2, 3, 4, 5, 6, 99, -1}
	keys := []string{"absent", "1B", "provider-key", "80B", "81B", "value-key", "member-id", "sender-id", "10KiB"}
	records := []string{"absent", "valid-better", "key-mismatch", "invalid", "worse", "1MiB"}
	peerKinds := []string{"absent", "sender+addr", "sender+loopback+addr", "other-id", "sender-no-addr", "sender-bad-addr", "sender-only-loopback", "100-records", "sender-9KiB"}
	senders := []string{"member", "outsider"}
	idx := 0
	seq := 10
	for _, sn := range senders {
		sender := e.outsider
		if sn == "member" {
			if len(e.members) == 0 {
				continue
			}
			sender = e.inRT
		}
		for _, ty := range types {
			for _, kk := range keys {
				for _, rk := range records {
					for _, pk := range peerKinds {
						idx++
						if idx%c.of != c.chunk {
							continue
						}
						// thin out combinations that cannot interact
						if rk != "absent" && ty != 0 && ty != 1 && pk != "absent" {
							continue
						}
						if pk != "absent" && !(ty == 2 || ty == 0 || ty == 5 || ty == 4) && rk != "absent" {
							continue
						}
						var key []byte
						switch kk {
						case "1B":
							key = []byte{0x42}
						case "provider-key":
							key = e.pkey
						case "80B":
							key = bytes.Repeat([]byte{7}, 80)
						case "81B":
							key = bytes.Repeat([]byte{7}, 81)
						case "value-key":
							key = []byte(e.vkey)
						case "member-id":
							if len(e.members) > 0 {
								key = []byte(e.members[len(e.members)-1])
							} else {
								key = []byte(e.second)
							}
						case "sender-id":
							key = []byte(sender)
						case "10KiB":
							key = bytes.Repeat([]byte{9}, 10240)
						}
						m := &pb.Message{Type: pb.Message_MessageType(ty), Key: key}
						seq++
						switch rk {
						case "valid-better":
							m.Record = &recpb.Record{Key: key, Value: sim.Val(seq, "new")}
						case "key-mismatch":
							m.Record = &recpb.Record{Key: []byte(e.vkey + "x"), Value: sim.Val(seq, "new")}
						case "invalid":
							m.Record = &recpb.Record{Key: key, Value: sim.Val(seq, "bad")}
						case "worse":
							m.Record = &recpb.Record{Key: key, Value: sim.Val(1, "worse")}
						case "1MiB":
							m.Record = &recpb.Record{Key: key, Value: append(sim.Val(seq, "big"), bytes.Repeat([]byte{'x'}, 1<<20)...)}
						}
						m.ProviderPeers = c09Peers(pk, sender)
						if pk == "100-records" || pk == "sender-9KiB" || ty == 5 || ty == 0 {
							m.CloserPeers = c09Peers(pk, sender)
						}
						if ty == -1 && kk != "absent" {
							m.SetClusterLevel(-5)
						}
						shape := fmt.Sprintf("type=%d key=%s record=%s peers=%s sender=%s state=%s", ty, kk, rk, pk, sn, c.state)
						if !c09One(e, c, m, sender, shape, rk, pk) {
							return
						}
					}
				}
			}
		}
	}
	if c.mode == "server" && !e.stillServing("the whole message product") {
		return
	}
}

func c09One(e *c09env, c c09cfg, m *pb.Message, sender peer.ID, shape, rk, pk string) bool {
	x := e.x
	l := e.l
	b, err := proto.Marshal(m)
	if err != nil {
		return true
	}
	// provider store before
	provBefore, _ := l.d.providerStore.GetProviders(l.ctx, m.GetKey())
	storedBefore, _ := l.d.valueStore.Get(l.ctx, e.vkey)
	replies, sizes, reset, handled, garbage := e.exchange(sender, frame(b))
	if c.mode == "client" {
		if handled && (len(replies) > 0 || garbage) {
			x.Failf("C09/client-answered", "%s: a client-mode node answered", shape)
			return false
		}
		x.Eval(false)
		return true
	}
	if !handled {
		x.Failf("C09/no-handler", "server mode but no handler is registered")
		return false
	}
	if garbage {
		x.Failf("C09/malformed-reply", "%s: the reply is not a well-formed framed message", shape)
		return false
	}
	if len(replies) > 1 {
		x.Failf("C09/several-replies", "%s: %d replies to one request", shape, len(replies))
		return false
	}
	ty := m.GetType()
	key := m.GetKey()
	x.Eval(len(replies) == 1)
	if len(replies) == 1 {
		r := replies[0]
		// per-record bound and decodability
		for _, list := range [][]*pb.Message_Peer{r.GetCloserPeers(), r.GetProviderPeers()} {
			for _, p := range list {
				if proto.Size(p) > pb.MaxPeerRecordSize {
					x.Failf("C09/peer-record-over-8KiB", "%s: a peer record of %d bytes in the reply", shape, proto.Size(p))
					return false
				}
			}
		}
		if ty == pb.Message_GET_PROVIDERS && sizes[0] > network.MessageSizeMax-2*pb.MaxPeerRecordSize {
			vmc.Count("get_providers_replies_within_two_records_of_the_limit", 1)
		}
		if (ty == pb.Message_FIND_NODE || ty == pb.Message_GET_PROVIDERS) && sizes[0] > network.MessageSizeMax {
			x.Failf("C09/reply-over-message-limit", "%s: reply of %d bytes", shape, sizes[0])
			return false
		}
		if ty == pb.Message_PING || ty == pb.Message_PUT_VALUE {
			if len(r.GetCloserPeers()) > 0 || len(r.GetProviderPeers()) > 0 {
				x.Failf("C09/echo-carries-peer-records", "%s: the echo carries %d closer and %d provider peer records", shape, len(r.GetCloserPeers()), len(r.GetProviderPeers()))
				return false
			}
		}
		if ty == pb.Message_FIND_NODE || ty == pb.Message_GET_VALUE || ty == pb.Message_GET_PROVIDERS {
			var ids []peer.ID
			for _, p := range r.GetCloserPeers() {
				ids = append(ids, peer.ID(p.GetId()))
			}
			target := peer.ID(key)
			rest := ids
			if ty == pb.Message_FIND_NODE && len(ids) > 0 && ids[0] == target {
				rest = ids[1:]
			}
			if len(rest) > c09K {
				x.Failf("C09/more-than-K-closer-peers", "%s: %d closer peers, K=%d", shape, len(rest), c09K)
				return false
			}
			// expected: the K nearest members without requester
			var cand []peer.ID
			for _, p := range e.members {
				if p != sender {
					cand = append(cand, p)
				}
			}
			cand = sim.SortByDistance(cand, string(key))
			for i, p := range rest {
				if p == l.w.Self || p == sender {
					if !(ty == pb.Message_FIND_NODE && p == target) {
						x.Failf("C09/self-or-requester-listed", "%s: the reply lists %s", shape, map[bool]string{true: "the node itself", false: "the requester"}[p == l.w.Self])
						return false
					}
				}
				if i > 0 && !kadLess(rest[i-1], p, string(key)) && rest[i-1] != p {
					x.Failf("C09/closer-peers-not-ascending", "%s: closer peers are not nearest first", shape)
					return false
				}
				found := false
				for _, q := range cand {
					if q == p {
						found = true
					}
				}
				if !found && !(ty == pb.Message_FIND_NODE && p == target) {
					x.Failf("C09/unknown-closer-peer", "%s: the reply lists a peer that is not a routing-table member", shape)
					return false
				}
			}
			if ty != pb.Message_FIND_NODE {
				want := cand
				if len(want) > c09K {
					want = want[:c09K]
				}
				if fmt.Sprint(rest) != fmt.Sprint(want) {
					x.Failf("C09/closer-peers-differ", "%s: closer peers %d, expected the %d nearest members without the requester", shape, len(rest), len(want))
					return false
				}
			}
		}
	}
	// ADD_PROVIDER acceptance rule
	if ty == pb.Message_ADD_PROVIDER {
		provAfter, _ := l.d.providerStore.GetProviders(l.ctx, key)
		added := len(provAfter) > len(provBefore)
		has := func(l []peer.AddrInfo, id peer.ID) *peer.AddrInfo {
			for i := range l {
				if l[i].ID == id {
					return &l[i]
				}
			}
			return nil
		}
		wasThere := has(provBefore, sender) != nil
		shouldStore := len(key) >= 1 && len(key) <= 80 &&
			(pk == "sender+addr" || pk == "sender+loopback+addr" || pk == "sender-only-loopback" || pk == "100-records" || pk == "sender-9KiB")
		now := has(provAfter, sender)
		if shouldStore && now == nil {
			x.Failf("C09/add-provider-rejected", "%s: a valid ADD_PROVIDER was not stored", shape)
			return false
		}
		if !shouldStore && (added || (now != nil && !wasThere)) {
			x.Failf("C09/add-provider-accepted", "%s: the provider store grew from %d to %d entries", shape, len(provBefore), len(provAfter))
			return false
		}
		for _, p := range provAfter {
			if p.ID != sender && has(provBefore, p.ID) == nil {
				x.Failf("C09/foreign-provider-stored", "%s: a provider other than the authenticated sender was stored", shape)
				return false
			}
		}
		if now != nil {
			for _, a := range l.h.Peerstore().Addrs(sender) {
				if manet.IsIPLoopback(a) {
					x.Failf("C09/filtered-address-stored", "%s: a loopback address of the provider reached the peerstore", shape)
					return false
				}
			}
		}
	}
	// PUT_VALUE: never replaces by invalid/mis-keyed/worse
	if ty == pb.Message_PUT_VALUE {
		after, _ := l.d.valueStore.Get(l.ctx, e.vkey)
		if after == nil || (storedBefore != nil && sim.Seq(after.GetValue()) < sim.Seq(storedBefore.GetValue())) {
			x.Failf("C09/value-downgraded", "%s: stored value went from %q to %v", shape, storedBefore.GetValue(), after)
			return false
		}
		if sim.Validator().Validate(e.vkey, after.GetValue()) != nil || string(after.GetKey()) != e.vkey {
			x.Failf("C09/invalid-value-stored", "%s: stored %q under key %q", shape, after.GetValue(), after.GetKey())
			return false
		}
		if (rk == "invalid" || rk == "key-mismatch" || rk == "worse") && len(replies) == 1 {
			x.Failf("C09/bad-put-acknowledged", "%s: the PUT_VALUE was acknowledged", shape)
			return false
		}
	}
	_ = reset
	_ = sort.Strings
	_ = strings.Join
	_ = protowire.SizeTag
	return true
}

// c09Bytes: byte-level inputs - every truncation of valid frames, extreme length prefixes,
// every 1- and 2-byte input.
func c09Bytes(e *c09env) {
	x := e.x
	var valid [][]byte
	for _, m := range []*pb.Message{
		pb.NewMessage(pb.Message_FIND_NODE, []byte(e.inRT), 0),
		pb.NewMessage(pb.Message_GET_VALUE, []byte(e.vkey), 0),
		pb.NewMessage(pb.Message_GET_PROVIDERS, e.pkey, 0),
		pb.NewMessage(pb.Message_PING, nil, 0),
		{Type: pb.Message_PUT_VALUE, Key: []byte(e.vkey), Record: &recpb.Record{Key: []byte(e.vkey), Value: sim.Val(9, "x")}},
		{Type: pb.Message_ADD_PROVIDER, Key: e.pkey, ProviderPeers: c09Peers("sender+addr", e.outsider)},
	} {
		b, _ := proto.Marshal(m)
		valid = append(valid, frame(b))
	}
	try := func(raw []byte, what string) bool {
		_, _, _, handled, garbage := e.exchange(e.outsider, raw)
		if !handled || garbage {
			x.Failf("C09/bytes/malformed-reply", "%s: handled=%v malformed=%v", what, handled, garbage)
			return false
		}
		x.Eval(true)
		return true
	}
	for vi, v := range valid {
		for cut := 0; cut <= len(v); cut++ {
			if !try(v[:cut], fmt.Sprintf("frame %d truncated at %d", vi, cut)) {
				return
			}
		}
		// corrupt each byte
		for i := range v {
			c := append([]byte{}, v...)
			c[i] ^= 0xff
			if !try(c, fmt.Sprintf("frame %d byte %d flipped", vi, i)) {
				return
			}
		}
		if !e.stillServing(fmt.Sprintf("truncations of frame %d", vi)) {
			return
		}
	}
	for _, l := range []uint64{0, network.MessageSizeMax, network.MessageSizeMax + 1, 1 << 62, 1<<64 - 1} {
		var b [binary.MaxVarintLen64]byte
		n := binary.PutUvarint(b[:], l)
		if !try(append(b[:n:n], 1, 2, 3), fmt.Sprintf("length prefix %d", l)) {
			return
		}
	}
	// a complete, well-formed request that is larger than the protocol's message size limit is not served
	for _, extra := range []int{1, 1 << 20} {
		big, _ := proto.Marshal(pb.NewMessage(pb.Message_PING, make([]byte, network.MessageSizeMax+extra), 0))
		replies, _, reset, handled, _ := e.exchange(e.outsider, frame(big))
		if !handled {
			x.Failf("C09/bytes/malformed-reply", "oversized request: no handler")
			return
		}
		if len(replies) > 0 || !reset {
			x.Failf("C09/bytes/oversized-request-served", "a %d byte request (limit %d) was answered with %d message(s), stream reset=%v", len(big), network.MessageSizeMax, len(replies), reset)
			return
		}
		x.Eval(true)
	}
	for a := 0; a < 256; a++ {
		if !try([]byte{byte(a)}, "1-byte input") {
			return
		}
		for b := 0; b < 256; b += 1 {
			if !try([]byte{byte(a), byte(b)}, "2-byte input") {
				return
			}
		}
	}
	e.stillServing("byte-level inputs")
}
