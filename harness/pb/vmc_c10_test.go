//go:build verif

package dht_pb

import (
	"bytes"
	"context"
	"fmt"
	"testing"

	recpb "github.com/libp2p/go-libp2p-record/pb"
	"github.com/libp2p/go-libp2p/core/peer"
	ma "github.com/multiformats/go-multiaddr"
	"github.com/multiformats/go-multihash"
	"google.golang.org/protobuf/encoding/protowire"
	"google.golang.org/protobuf/proto"

	"github.com/libp2p/go-libp2p-kad-dht/internal/vmc"
	"github.com/libp2p/go-libp2p-kad-dht/internal/vmc/kid"
)

// C10 part "messenger": every response shape (exhaustive product over field alphabets, passed
// through the wire encoding) to every request kind of the real ProtocolMessenger.

type scripted struct {
	resp *Message
	err  error
}

func (s *scripted) SendRequest(ctx context.Context, p peer.ID, m *Message) (*Message, error) {
	if s.err != nil {
		return nil, s.err
	}
	// through the wire: what the real sender would decode
	b, err := proto.Marshal(s.resp)
	if err != nil {
		return nil, err
	}
	out := new(Message)
	if err := proto.Unmarshal(b, out); err != nil {
		return nil, err
	}
	return out, nil
}
func (s *scripted) SendMessage(ctx context.Context, p peer.ID, m *Message) error { return s.err }

var (
	c10Types   = []int32{-2, 0, 1, 2, 3, 4, 5, 6, 99} // -2: echo the request type
	c10Keys    = []string{"absent", "same", "other", "empty", "long"}
	c10Records = []string{"absent", "ok", "key-mismatch", "key-prefix", "no-value", "empty-key", "value-differs"}
	c10Peers   = []string{"absent", "one", "empty-id", "bad-addr", "mixed-addrs", "9KiB-addrs", "100-records", "huge-connection"}
)

type c10cfg struct {
	chunk, of int
}

func c10Configs(tier string) []vmc.Cfg {
	var out []vmc.Cfg
	for i := 0; i < 16; i++ {
		out = append(out, vmc.Cfg{Name: fmt.Sprintf("messenger/%d-of-16", i), Data: c10cfg{i, 16}})
	}
	return out
}

func TestVMC_C10messenger(t *testing.T) {
	vmc.Main(t, vmc.Harness{ID: "C10", Configs: c10Configs, Run: c10Run})
}

func c10MakePeers(kind string) []*Message_Peer {
	good := ma.StringCast("/ip4/1.2.3.4/tcp/4001").Bytes()
	id := []byte(kid.Peer("1", 0))
	switch kind {
	case "absent":
		return nil
	case "one":
		return []*Message_Peer{{Id: id, Addrs: [][]byte{good}}}
	case "empty-id":
		return []*Message_Peer{{Id: nil, Addrs: [][]byte{good}}}
	case "bad-addr":
		return []*Message_Peer{{Id: id, Addrs: [][]byte{{0xff, 0xff, 0x01}}}}
	case "mixed-addrs":
		return []*Message_Peer{{Id: id, Addrs: [][]byte{{0xff, 0xff, 0x01}, good, {}, good}}}
	case "9KiB-addrs":
		var addrs [][]byte
		for i := 0; i < 900; i++ {
			addrs = append(addrs, ma.StringCast(fmt.Sprintf("/ip4/10.%d.%d.1/tcp/4001", i/256, i%256)).Bytes())
		}
		return []*Message_Peer{{Id: id, Addrs: addrs}}
	case "100-records":
		var out []*Message_Peer
		for i := 0; i < 100; i++ {
			out = append(out, &Message_Peer{Id: []byte(kid.Peer("1", i)), Addrs: [][]byte{good}})
		}
		return out
	case "huge-connection":
		return []*Message_Peer{{Id: id, Addrs: [][]byte{good}, Connection: Message_ConnectionType(-1)}}
	}
	return nil
}

func c10Run(x *vmc.X, cfg vmc.Cfg) {
	c := cfg.Data.(c10cfg)
	ctx := context.Background()
	to := kid.Peer("0", 1)
	self := peer.AddrInfo{ID: kid.Peer("0", 0), Addrs: []ma.Multiaddr{ma.StringCast("/ip4/5.5.5.5/tcp/1")}}
	key := "/v/the-key"
	mhKey, _ := multihash.Sum([]byte("content"), multihash.SHA2_256, -1)
	idx := 0
	requests := []string{"PutValue", "GetValue", "GetClosestPeers", "PutProviderAddrs", "GetProviders", "Ping"}
	for _, rq := range requests {
		reqType := map[string]int32{"PutValue": 0, "GetValue": 1, "GetClosestPeers": 4, "PutProviderAddrs": 2, "GetProviders": 3, "Ping": 5}[rq]
		reqKey := key
		if rq == "GetProviders" || rq == "PutProviderAddrs" {
			reqKey = string(mhKey)
		} else if rq == "GetClosestPeers" {
			reqKey = string(to)
		}
		for _, ty := range c10Types {
			for _, k := range c10Keys {
				for _, rk := range c10Records {
					for _, cp := range c10Peers {
						for _, pp := range c10Peers {
							idx++
							if idx%c.of != c.chunk {
								continue
							}
							if rq == "Ping" && (rk != "absent" && rk != "ok") {
								continue
							}
							resp := &Message{}
							if ty == -2 {
								resp.Type = Message_MessageType(reqType)
							} else {
								resp.Type = Message_MessageType(ty)
							}
							switch k {
							case "same":
								resp.Key = []byte(reqKey)
							case "other":
								resp.Key = []byte("/v/another-key")
							case "empty":
								resp.Key = []byte{}
							case "long":
								resp.Key = bytes.Repeat([]byte("k"), 4096)
							}
							value := []byte("1:value")
							switch rk {
							case "ok":
								resp.Record = &recpb.Record{Key: []byte(reqKey), Value: value}
							case "key-mismatch":
								resp.Record = &recpb.Record{Key: []byte("/v/another-key"), Value: value}
							case "key-prefix":
								resp.Record = &recpb.Record{Key: []byte(reqKey[:len(reqKey)-1]), Value: value}
							case "no-value":
								resp.Record = &recpb.Record{Key: []byte(reqKey)}
							case "empty-key":
								resp.Record = &recpb.Record{Value: value}
							case "value-differs":
								resp.Record = &recpb.Record{Key: []byte(reqKey), Value: []byte("2:other")}
							}
							resp.CloserPeers = c10MakePeers(cp)
							resp.ProviderPeers = c10MakePeers(pp)
							shape := fmt.Sprintf("%s/type=%d/key=%s/record=%s/closer=%s/providers=%s", rq, ty, k, rk, cp, pp)
							if !c10One(x, ctx, rq, shape, resp, to, key, mhKey, self, value, rk) {
								return
							}
						}
					}
				}
			}
		}
	}
}

func c10CheckInfos(x *vmc.X, shape, what string, infos []*peer.AddrInfo) bool {
	for _, ai := range infos {
		if ai == nil {
			x.Failf("C10/nil-addrinfo/"+what, "%s: nil AddrInfo returned", shape)
			return false
		}
		size := protowire.SizeTag(1) + protowire.SizeBytes(len(ai.ID))
		for _, a := range ai.Addrs {
			if a == nil {
				x.Failf("C10/nil-address/"+what, "%s: nil multiaddr returned", shape)
				return false
			}
			if _, err := ma.NewMultiaddrBytes(a.Bytes()); err != nil {
				x.Failf("C10/undecodable-address/"+what, "%s: undecodable address returned", shape)
				return false
			}
			size += protowire.SizeTag(2) + protowire.SizeBytes(len(a.Bytes()))
		}
		if size > MaxPeerRecordSize {
			x.Failf("C10/record-over-8KiB/"+what, "%s: a returned peer record carries %d bytes of addresses", shape, size)
			return false
		}
	}
	return true
}

func c10One(x *vmc.X, ctx context.Context, rq, shape string, resp *Message, to peer.ID, key string, mhKey multihash.Multihash, self peer.AddrInfo, value []byte, rk string) (ok bool) {
	pm, _ := NewProtocolMessenger(&scripted{resp: resp})
	defer func() {
		if r := recover(); r != nil {
			x.Failf("C10/panic/"+rq+"/record="+rk, "%s: panic: %v", shape, r)
			ok = false
		}
	}()
	nontrivial := false
	switch rq {
	case "PutValue":
		err := pm.PutValue(ctx, to, &recpb.Record{Key: []byte(key), Value: value})
		if err == nil && (resp.Record == nil || !bytes.Equal(resp.Record.Value, value)) {
			x.Failf("C10/put-accepted-wrong-echo", "%s: PutValue succeeded although the echo does not carry the value", shape)
			return false
		}
		nontrivial = err != nil
	case "GetValue":
		rec, closer, err := pm.GetValue(ctx, to, key)
		if err == nil && rec != nil && string(rec.GetKey()) != key {
			x.Failf("C10/record-for-other-key", "%s: GetValue returned a record with key %q", shape, rec.GetKey())
			return false
		}
		if !c10CheckInfos(x, shape, "GetValue", closer) {
			return false
		}
		nontrivial = err != nil || rec != nil
	case "GetClosestPeers":
		closer, err := pm.GetClosestPeers(ctx, to, to)
		if !c10CheckInfos(x, shape, "GetClosestPeers", closer) {
			return false
		}
		nontrivial = err != nil || len(closer) > 0
	case "PutProviderAddrs":
		_ = pm.PutProviderAddrs(ctx, to, mhKey, self)
	case "GetProviders":
		provs, closer, err := pm.GetProviders(ctx, to, mhKey)
		if !c10CheckInfos(x, shape, "GetProviders.providers", provs) || !c10CheckInfos(x, shape, "GetProviders.closer", closer) {
			return false
		}
		nontrivial = err != nil || len(provs) > 0
	case "Ping":
		err := pm.Ping(ctx, to)
		if err == nil && resp.Type != Message_PING {
			x.Failf("C10/ping-accepted-wrong-type", "%s: Ping succeeded on a response of type %v", shape, resp.Type)
			return false
		}
		nontrivial = err != nil
	}
	x.Eval(nontrivial)
	return true
}
