//go:build verif

package provider

import (
	"context"
	"errors"
	"fmt"
	"sort"
	"strings"
	gosync "sync"
	"testing"
	"testing/synctest"
	"time"

	"github.com/libp2p/go-libp2p/core/peer"
	ma "github.com/multiformats/go-multiaddr"
	mh "github.com/multiformats/go-multihash"

	"github.com/libp2p/go-libp2p-kad-dht/internal/vmc"
	"github.com/libp2p/go-libp2p-kad-dht/internal/vmc/jds"
	"github.com/libp2p/go-libp2p-kad-dht/internal/vmc/kid"
	"github.com/libp2p/go-libp2p-kad-dht/internal/vmc/sim"
	"github.com/libp2p/go-libp2p-kad-dht/internal/vmc/vrand"
	"github.com/libp2p/go-libp2p-kad-dht/internal/vmc/vsync"
	pb "github.com/libp2p/go-libp2p-kad-dht/pb"
	"github.com/libp2p/go-libp2p-kad-dht/provider/keystore"
)

// C14 (sweeping provider): Close at every instant of running provide / reprovide work. Every
// router and message-sender call is a scheduling point at which the worker that made it stays
// parked (it does not observe cancellation while parked); the explorer decides which parked call
// returns next, when the scripted operations are issued, when virtual time advances (so that
// reprovides become due while workers are busy) and when Close is called.
// Oracle: Close returns (no deadlock), at that instant nothing the provider started is still
// inside a router/sender call, later calls are refused, a second Close is harmless, nothing is left.

type c14pcfg struct {
	workers string // "1" | "2+dedicated"
	budget  int
	ctor    string // constructor failure case ("" = Close exploration)
	silent  bool   // after Close the network never answers: a call in flight only returns when its context ends
}

func c14pConfigs(tier string) []vmc.Cfg {
	b := 3
	if tier == "thorough" {
		b = 4
	}
	var out []vmc.Cfg
	for _, wk := range []string{"1", "2+dedicated"} {
		out = append(out, vmc.Cfg{Name: fmt.Sprintf("provider-close/workers-%s/preemptions<=%d", wk, b), Budget: b, Data: c14pcfg{workers: wk, budget: b}})
		out = append(out, vmc.Cfg{Name: fmt.Sprintf("provider-close/workers-%s/network-silent-after-close/preemptions<=%d", wk, b), Budget: b, Data: c14pcfg{workers: wk, budget: b, silent: true}})
	}
	for _, f := range []string{"online-interval-0", "online-interval-0+own-keystore", "negative-offline-delay", "no-router", "no-sender", "dedicated>max", "nil-keystore-option"} {
		out = append(out, vmc.Cfg{Name: "provider-ctor/" + f, Data: c14pcfg{ctor: f}})
	}
	return out
}

func TestVMC_C14provider(t *testing.T) {
	vmc.Main(t, vmc.Harness{ID: "C14", Configs: c14pConfigs, Run: c14pRun, Bubble: true, ShardSubtree: true})
}

type c14penv struct {
	s     *vmc.Sched
	mu    gosync.Mutex
	swarm []peer.ID
	calls int
	// deadAfterClose: once closing is set, a call that is released does not return before its context ends
	deadAfterClose bool
	closing        bool
}

func (e *c14penv) afterPoint(ctx context.Context) {
	e.mu.Lock()
	dead := e.deadAfterClose && e.closing
	e.mu.Unlock()
	if dead {
		<-ctx.Done()
	}
}

func (e *c14penv) GetClosestPeers(ctx context.Context, key string) ([]peer.ID, error) {
	e.mu.Lock()
	e.calls++
	e.mu.Unlock()
	e.s.Point("closest " + kid.BitsOf([]byte(key), 3))
	e.afterPoint(ctx)
	if ctx.Err() != nil {
		return nil, ctx.Err()
	}
	ids := sim.SortByDistance(append([]peer.ID{}, e.swarm...), key)
	if len(ids) > 2 {
		ids = ids[:2]
	}
	return ids, nil
}

func (e *c14penv) SendRequest(ctx context.Context, p peer.ID, m *pb.Message) (*pb.Message, error) {
	return nil, errors.New("unexpected SendRequest")
}

func (e *c14penv) SendMessage(ctx context.Context, p peer.ID, m *pb.Message) error {
	e.mu.Lock()
	e.calls++
	e.mu.Unlock()
	e.s.Point("send " + kid.BitsOf([]byte(p), 3))
	e.afterPoint(ctx)
	return ctx.Err()
}

func c14pLeaks() []string {
	var real []string
	for _, g := range vmc.LeakedGoroutines() {
		if strings.Contains(g, "synctest.") || strings.Contains(g, "c14p") {
			continue
		}
		real = append(real, g)
	}
	return real
}

func c14pRun(x *vmc.X, cfg vmc.Cfg) {
	c := cfg.Data.(c14pcfg)
	vrand.Hook = vrand.Seeded(1) // the keys of the prefix-length measurement: the same in every execution and replay
	defer func() { vrand.Hook = nil }()
	if c.ctor != "" {
		c14pCtor(x, c)
		return
	}
	self := kid.Peer("0110", 9)
	s := vmc.NewSched(x)
	s.Filter = func(string) bool { return false } // set-up runs through
	// the window between a WaitGroup waiter's wake-up and its return is a scheduling point too
	vsync.Hook = func(addr any, op string) {
		if op == "wg-wake" {
			s.Point("wg-wake")
		}
	}
	defer func() { vsync.Hook = nil }()
	e := &c14penv{s: s}
	// two peers, r = 2: a single region, so that at most one goroutine ever waits for a worker
	// (who wins when one Broadcast wakes several waiters of the external worker pool is decided
	// by the runtime, not by the explorer)
	for _, cell := range []string{"000", "100"} {
		e.swarm = append(e.swarm, kid.Peer(cell, 9))
	}
	keys := []mh.Multihash{kid.Mh("0001", 0), kid.Mh("1010", 0), kid.Mh("0111", 0), kid.Mh("1100", 0)}
	store := jds.New()
	ks, err := keystore.NewKeystore(jds.New())
	if err != nil {
		x.Failf("C14/setup", "%v", err)
		return
	}
	defer ks.Close()
	opts := []Option{
		WithPeerID(self), WithRouter(e), WithMessageSender(e), WithSelfAddrs(func() []ma.Multiaddr { return []ma.Multiaddr{ma.StringCast("/ip4/8.8.8.8/tcp/4001")} }),
		WithReplicationFactor(2), WithReprovideInterval(c17I), WithMaxReprovideDelay(c17D),
		WithOfflineDelay(5 * time.Minute), WithConnectivityCheckOnlineInterval(30 * time.Second),
		WithDatastore(store), WithKeystore(ks),
	}
	if c.workers == "1" {
		opts = append(opts, WithMaxWorkers(1), WithDedicatedBurstWorkers(0), WithDedicatedPeriodicWorkers(0))
	} else {
		opts = append(opts, WithMaxWorkers(2), WithDedicatedBurstWorkers(1), WithDedicatedPeriodicWorkers(1))
	}
	prov, err := New(opts...)
	if err != nil {
		x.Failf("C14/setup", "%v", err)
		return
	}
	closeStarted, closeReturned := false, false
	defer func() {
		s.Finish()
		if !closeStarted || closeReturned {
			prov.Close()
		}
	}()
	synctest.Wait()
	time.Sleep(time.Minute)
	synctest.Wait()
	if !prov.connectivity.IsOnline() {
		x.Failf("C14/setup", "provider did not come online")
		return
	}
	// one key is already being reprovided: its region is in the schedule
	if err := prov.StartProviding(false, keys[3]); err != nil {
		x.Failf("C14/setup", "%v", err)
		return
	}
	time.Sleep(time.Minute)
	synctest.Wait()
	s.Filter = nil // from here on every router/sender call parks

	s.NameByLabel, s.StrictOrder = true, true
	// base schedule: the script below is issued whenever no call is parked, parked calls return in
	// canonical order, Close comes last. One deviation = Close now / the next script step now
	// (while calls are parked) / another parked call returns first.
	script := []struct {
		name  string
		burst bool
		run   func() error
	}{
		{"start(k0)", true, func() error { return prov.StartProviding(false, keys[0]) }},
		{"clock+I", false, func() error { time.Sleep(c17I); return nil }},
		{"once(k2)", true, func() error { return prov.ProvideOnce(keys[2]) }},
		{"clock+I/2", false, func() error { time.Sleep(c17I / 2); return nil }},
		{"start(k1)", true, func() error { return prov.StartProviding(true, keys[1]) }},
		{"clock+I", false, func() error { time.Sleep(c17I); return nil }},
	}
	next := 0
	var closeErr error
	var hist []string
	doClose := false
	for steps := 0; steps < 600 && !doClose; steps++ {
		synctest.Wait()
		var actions []vmc.Action
		if next < len(script) && (!script[next].burst || len(s.Parked()) == 0) {
			op := script[next]
			actions = append(actions, vmc.Action{Label: op.name, Do: func() {
				hist = append(hist, op.name)
				if err := op.run(); err != nil {
					x.Failf("C14/provider/op-error", "%v: %s: %v", hist, op.name, err)
				}
				next++
			}})
		}
		actions = append(actions, vmc.Action{Label: "close", Do: func() { doClose = true }})
		before := len(s.Parked())
		s.Step(actions)
		if x.Failed() {
			return
		}
		if before > 0 {
			hist = append(hist, ".")
		}
	}
	synctest.Wait()
	parkedAtClose := s.Parked()
	hist = append(hist, "close")
	closeStarted = true
	e.mu.Lock()
	e.deadAfterClose, e.closing = c.silent, true
	e.mu.Unlock()
	s.GoNow("closer", func() {
		closeErr = prov.Close()
		closeReturned = true
	})
	// calls that are parked return (in explorer-chosen order); Close must come back
	for steps := 0; steps < 400; steps++ {
		synctest.Wait()
		if s.Done("closer") {
			break
		}
		if len(s.Parked()) == 0 {
			time.Sleep(time.Minute) // timers of the provider (if any) may still matter
			synctest.Wait()
			if len(s.Parked()) == 0 && !s.Done("closer") {
				if steps > 20 {
					break
				}
			}
			continue
		}
		s.Step(nil)
	}
	synctest.Wait()
	if !s.Done("closer") {
		x.Failf("C14/provider/close-hangs", "%v (workers %s; parked at Close: %v): Close has not returned although every router/sender call has returned and 20 virtual minutes passed; goroutines: %v", hist, c.workers, parkedAtClose, c14pLeaks())
		return
	}
	if left := s.ParkedOthers(); len(left) > 0 {
		x.Failf("C14/provider/close-returned-early", "%v: Close returned while goroutines of the provider are still inside %v", hist, left)
		return
	}
	if closeErr != nil {
		x.Failf("C14/provider/close-error", "%v: %v", hist, closeErr)
		return
	}
	s.Finish()
	// refused afterwards; second Close harmless
	for name, f := range map[string]func() error{
		"StartProviding": func() error { return prov.StartProviding(false, keys[0]) },
		"ProvideOnce":    func() error { return prov.ProvideOnce(keys[1]) },
		"StopProviding":  func() error { return prov.StopProviding(keys[0]) },
		"Refresh":        func() error { return prov.RefreshSchedule() },
	} {
		if err := f(); !errors.Is(err, ErrClosed) {
			x.Failf("C14/provider/not-refused-after-close/"+name, "%s after Close returned %v", name, err)
		}
	}
	second := make(chan error, 1)
	go func() { second <- prov.Close() }()
	synctest.Wait()
	select {
	case e := <-second:
		if e != nil {
			x.Failf("C14/provider/second-close-error", "%v", e)
		}
	default:
		x.Failf("C14/provider/second-close-hangs", "goroutines %v", c14pLeaks())
		return
	}
	time.Sleep(2 * c17I)
	synctest.Wait()
	e.mu.Lock()
	callsAfter := e.calls
	e.mu.Unlock()
	_ = callsAfter
	var left []string
	for _, g := range c14pLeaks() {
		if strings.Contains(g, "keystore") {
			continue // the keystore is the harness's, closed by the deferred call
		}
		left = append(left, g)
	}
	sort.Strings(left)
	if len(left) > 0 {
		x.Failf("C14/provider/leak", "%v: after Close %d goroutine(s) remain: %v", hist, len(left), left)
	}
	x.Eval(len(parkedAtClose) > 0)
	x.Outcome("parked-at-close=%d", len(parkedAtClose))
}

// c14pCtor: provider.New fails at a chosen point; nothing it started (internal keystore worker,
// connectivity checker, provider loops) may be left running.
func c14pCtor(x *vmc.X, c c14pcfg) {
	self := kid.Peer("0110", 9)
	s := vmc.NewSched(x)
	s.Filter = func(string) bool { return false }
	defer s.Finish()
	e := &c14penv{s: s, swarm: []peer.ID{kid.Peer("000", 9), kid.Peer("100", 9)}}
	opts := []Option{WithPeerID(self), WithSelfAddrs(func() []ma.Multiaddr { return nil }), WithDatastore(jds.New())}
	if c.ctor != "no-router" {
		opts = append(opts, WithRouter(e))
	}
	if c.ctor != "no-sender" {
		opts = append(opts, WithMessageSender(e))
	}
	var own keystore.Keystore
	switch c.ctor {
	case "online-interval-0":
		opts = append(opts, WithConnectivityCheckOnlineInterval(0))
	case "online-interval-0+own-keystore":
		ks, err := keystore.NewKeystore(jds.New())
		if err != nil {
			x.Failf("C14/setup", "%v", err)
			return
		}
		own = ks
		opts = append(opts, WithKeystore(ks), WithConnectivityCheckOnlineInterval(0))
	case "negative-offline-delay":
		opts = append(opts, WithOfflineDelay(-time.Second))
	case "dedicated>max":
		opts = append(opts, WithMaxWorkers(1), WithDedicatedBurstWorkers(1), WithDedicatedPeriodicWorkers(1))
	case "nil-keystore-option":
		opts = append(opts, WithKeystore(nil))
	}
	prov, err := New(opts...)
	synctest.Wait()
	if err == nil {
		x.Failf("C14/provider/ctor-no-error", "New succeeded although %s was injected", c.ctor)
		prov.Close()
		if own != nil {
			own.Close()
		}
		return
	}
	if prov != nil {
		x.Failf("C14/provider/ctor-handle-with-error", "New returned a provider together with the error %v", err)
	}
	time.Sleep(time.Minute)
	synctest.Wait()
	var left []string
	for _, g := range c14pLeaks() {
		if own != nil && strings.Contains(g, "keystore") {
			continue // the caller's keystore stays the caller's
		}
		left = append(left, g)
	}
	if len(left) > 0 {
		x.Failf("C14/provider/ctor-leak/"+c.ctor, "New failed (%v) and left %d goroutine(s) running: %v", err, len(left), left)
	}
	if own != nil {
		own.Close()
	}
	x.Eval(true)
	x.Outcome("%s -> error", c.ctor)
}
