//go:build verif

package keyspace

import (
	"fmt"
	"sort"
	"strings"
	"testing"

	"github.com/ipfs/go-libdht/kad/key/bit256"
	"github.com/ipfs/go-libdht/kad/key/bitstr"
	"github.com/ipfs/go-libdht/kad/trie"
	"github.com/libp2p/go-libp2p/core/peer"
	mh "github.com/multiformats/go-multihash"

	"github.com/libp2p/go-libp2p-kad-dht/internal/vmc"
	"github.com/libp2p/go-libp2p-kad-dht/internal/vmc/kid"
)

// C18: exhaustive small-scope differential testing of the keyspace functions against naive
// set-theoretic reference implementations. One "execution" of the explorer is one chunk of the
// input space; the evaluations are counted by x.Eval.

type c18cfg struct {
	fn        string
	chunk, of int
	maxLen    int
	thorough  bool
}

func c18Configs(tier string) []vmc.Cfg {
	var out []vmc.Cfg
	th := tier == "thorough"
	add := func(fn string, chunks int, maxLen int) {
		for i := 0; i < chunks; i++ {
			out = append(out, vmc.Cfg{Name: fmt.Sprintf("%s/len%d/%d-of-%d", fn, maxLen, i, chunks), Data: c18cfg{fn, i, chunks, maxLen, th}})
		}
	}
	add("allocate3", 16, 3)
	add("allocate4", 32, 4)
	add("gaps", 16, 3)
	add("subtract", 16, 3)
	add("coalesce", 1, 3)
	add("nextleaf", 16, 3)
	add("prune-find", 8, 3)
	add("covered", 1, 3)
	add("regions", 32, 4)
	add("shortest", 16, 4)
	add("misc", 1, 3)
	if th {
		add("gaps", 256, 4)
		add("subtract", 256, 4)
		add("coalesce", 16, 4)
		add("nextleaf", 256, 4)
		add("prune-find", 128, 4)
		add("covered", 16, 4)
		add("embed256", 16, 3)
	}
	return out
}

func TestVMC_C18(t *testing.T) {
	vmc.Main(t, vmc.Harness{ID: "C18", Configs: c18Configs, Run: c18Run})
}

// ---- enumeration helpers ---------------------------------------------------------------------

// all bitstrings of length exactly n
func bitstrings(n int) []string {
	out := []string{""}
	for i := 0; i < n; i++ {
		var nx []string
		for _, s := range out {
			nx = append(nx, s+"0", s+"1")
		}
		out = nx
	}
	return out
}

// all bitstrings of length <= n
func bitstringsUpTo(n int) []string {
	var out []string
	for l := 0; l <= n; l++ {
		out = append(out, bitstrings(l)...)
	}
	return out
}

// prefixFree returns every prefix-free set of bitstrings of length <= n below prefix p (incl. the empty set).
func prefixFree(p string, n int) [][]string {
	out := [][]string{{}, {p}}
	if len(p) < n {
		l, r := prefixFree(p+"0", n), prefixFree(p+"1", n)
		for _, a := range l {
			for _, b := range r {
				if len(a) == 0 && len(b) == 0 {
					continue
				}
				s := append(append([]string{}, a...), b...)
				out = append(out, s)
			}
		}
	}
	return out
}

func mkTrie(keys []string) *trie.Trie[bitstr.Key, string] {
	t := trie.New[bitstr.Key, string]()
	for _, k := range keys {
		t.Add(bitstr.Key(k), "d:"+k)
	}
	return t
}

func order256(bits string) bit256.Key {
	var b [32]byte
	for i, c := range bits {
		if c == '1' {
			b[i/8] |= 0x80 >> (uint(i) % 8)
		}
	}
	return bit256.NewKeyFromArray(b)
}

func trieKeys[D any](t *trie.Trie[bitstr.Key, D]) []string {
	var out []string
	for _, k := range AllKeys(t, bit256.ZeroKey()) {
		out = append(out, string(k))
	}
	sort.Strings(out)
	return out
}

// xorLess orders two non-overlapping prefixes by the traversal order given by `order` bits.
func xorLess(a, b, order string) bool {
	for i := 0; i < len(a) && i < len(b); i++ {
		if a[i] != b[i] {
			ob := byte('0')
			if i < len(order) {
				ob = order[i]
			}
			return a[i] == ob
		}
	}
	return len(a) > len(b) // overlapping: unspecified; keep deterministic
}

func covers(keys []string, leaf string) bool {
	for _, k := range keys {
		if strings.HasPrefix(leaf, k) {
			return true
		}
	}
	return false
}

// refGaps: maximal aligned blocks of uncovered leaves (at depth D) below target.
func refGaps(keys []string, target string, D int) []string {
	var rec func(p string) []string
	rec = func(p string) []string {
		// is p fully uncovered / fully covered / mixed
		for _, k := range keys {
			if strings.HasPrefix(p, k) {
				return nil // covered by a key at or above p
			}
		}
		any := false
		for _, k := range keys {
			if strings.HasPrefix(k, p) {
				any = true
				break
			}
		}
		if !any {
			return []string{p}
		}
		if len(p) >= D {
			return nil
		}
		return append(rec(p+"0"), rec(p+"1")...)
	}
	return rec(target)
}

func sortByOrder(l []string, order string) {
	sort.SliceStable(l, func(i, j int) bool { return xorLess(l[i], l[j], order) })
}

func c18Run(x *vmc.X, cfg vmc.Cfg) {
	c := cfg.Data.(c18cfg)
	switch c.fn {
	case "allocate3":
		c18Allocate(x, c, 3, false)
	case "allocate4":
		c18Allocate(x, c, 4, true)
	case "gaps":
		c18Gaps(x, c)
	case "subtract":
		c18Subtract(x, c)
	case "coalesce":
		c18Coalesce(x, c)
	case "nextleaf":
		c18NextLeaf(x, c)
	case "prune-find":
		c18PruneFind(x, c)
	case "covered":
		c18Covered(x, c)
	case "regions":
		c18Regions(x, c)
	case "shortest":
		c18Shortest(x, c)
	case "misc":
		c18Misc(x, c)
	case "embed256":
		c18Embed256(x, c)
	}
	x.Outcome("%s done", c.fn)
}

func xorDist(a, b string) string {
	out := make([]byte, len(a))
	for i := range a {
		if a[i] == b[i] {
			out[i] = '0'
		} else {
			out[i] = '1'
		}
	}
	return string(out)
}

// ---- AllocateToKClosest ------------------------------------------------------------------------

func c18Allocate(x *vmc.X, c c18cfg, L int, singletonItems bool) {
	all := bitstrings(L)
	n := len(all)
	idx := 0
	maxK := 4
	checkOne := func(items, dests []string, k int) bool {
		it := trie.New[bitstr.Key, string]()
		for _, s := range items {
			it.Add(bitstr.Key(s), s)
		}
		dt := trie.New[bitstr.Key, string]()
		for _, s := range dests {
			dt.Add(bitstr.Key(s), s)
		}
		res := AllocateToKClosest(it, dt, k)
		got := map[string]map[string]int{}
		for d, batches := range res {
			for _, b := range batches {
				for _, item := range b {
					if got[item] == nil {
						got[item] = map[string]int{}
					}
					got[item][d]++
				}
			}
		}
		for _, item := range items {
			ds := append([]string{}, dests...)
			sort.Slice(ds, func(i, j int) bool { return xorDist(ds[i], item) < xorDist(ds[j], item) })
			want := ds
			if len(want) > k {
				want = want[:k]
			}
			g := got[item]
			ok := len(g) == len(want)
			for _, d := range want {
				if g[d] != 1 {
					ok = false
				}
			}
			if !ok {
				x.Failf("C18/AllocateToKClosest", "items=%v dests=%v k=%d: item %s allocated to %v, want exactly once to each of %v", items, dests, k, item, g, want)
				return false
			}
		}
		if len(got) != len(items) {
			x.Failf("C18/AllocateToKClosest/foreign-item", "items=%v dests=%v k=%d: result mentions %d items", items, dests, k, len(got))
			return false
		}
		x.Eval(len(dests) > k && len(items) > 0)
		return true
	}
	subsets := func(mask int) []string {
		var s []string
		for i := 0; i < n; i++ {
			if mask&(1<<i) != 0 {
				s = append(s, all[i])
			}
		}
		return s
	}
	if singletonItems {
		for dm := 1; dm < 1<<n; dm++ {
			idx++
			if idx%c.of != c.chunk {
				continue
			}
			dests := subsets(dm)
			for _, item := range all {
				for k := 1; k <= 3; k++ {
					if !checkOne([]string{item}, dests, k) {
						return
					}
				}
			}
		}
		return
	}
	for im := 1; im < 1<<n; im++ {
		if im%c.of != c.chunk {
			continue
		}
		items := subsets(im)
		for dm := 1; dm < 1<<n; dm++ {
			dests := subsets(dm)
			for k := 1; k <= maxK; k++ {
				if !checkOne(items, dests, k) {
					return
				}
			}
		}
	}
	// degenerate inputs
	if c.chunk == 0 {
		e := trie.New[bitstr.Key, string]()
		f := trie.New[bitstr.Key, string]()
		f.Add("000", "000")
		if AllocateToKClosest(e, f, 1) != nil || AllocateToKClosest(f, e, 1) != nil || AllocateToKClosest(f, f, 0) != nil {
			x.Failf("C18/AllocateToKClosest/degenerate", "empty items/dests or k=0 must allocate nothing")
		}
	}
}

// ---- TrieGaps ----------------------------------------------------------------------------------

func c18Gaps(x *vmc.X, c c18cfg) {
	sets := prefixFree("", c.maxLen)
	targets := bitstringsUpTo(c.maxLen)
	orders := bitstrings(3)
	for i, keys := range sets {
		if i%c.of != c.chunk {
			continue
		}
		t := mkTrie(keys)
		for _, target := range targets {
			for _, o := range orders {
				got := TrieGaps(t, bitstr.Key(target), order256(o))
				var gs []string
				for _, g := range got {
					gs = append(gs, string(g))
				}
				want := refGaps(keys, target, c.maxLen+1)
				sortByOrder(want, o)
				// Contract (doc of TrieGaps): every gap is a prefix no key of the trie overlaps, gaps do not
				// overlap each other, every gap touches the target subtrie, gaps plus keys cover the
				// whole target subtrie, and the result is sorted by `order`. The exact maximal-block
				// answer `want` satisfies it; a gap that is a broader uncovered block than the target
				// (which the implementation returns when nothing of the trie is near the target) does too.
				bad := ""
				for gi, g := range gs {
					for _, k := range keys {
						if strings.HasPrefix(g, k) || strings.HasPrefix(k, g) {
							bad = fmt.Sprintf("gap %q overlaps key %q", g, k)
						}
					}
					if !strings.HasPrefix(g, target) && !strings.HasPrefix(target, g) {
						bad = fmt.Sprintf("gap %q is outside target", g)
					}
					for gj, h := range gs {
						if gi != gj && strings.HasPrefix(g, h) {
							bad = fmt.Sprintf("gaps %q and %q overlap", g, h)
						}
					}
					if gi > 0 && !xorLess(gs[gi-1], g, o) {
						bad = fmt.Sprintf("gaps %q, %q not in order", gs[gi-1], g)
					}
				}
				if bad == "" {
					if rest := refGaps(append(append([]string{}, keys...), gs...), target, c.maxLen+1); len(rest) != 0 {
						bad = fmt.Sprintf("%v of the target stay uncovered", rest)
					}
				}
				if bad != "" {
					x.Failf("C18/TrieGaps", "trie=%v target=%q order=%s: got %v (exact answer %v): %s", keys, target, o, gs, want, bad)
					return
				}
				if fmt.Sprint(gs) == fmt.Sprint(want) {
					vmc.Count("gaps_exact", 1)
				} else {
					vmc.Count("gaps_broader_than_target", 1)
				}
				x.Eval(len(want) > 0 && len(keys) > 0)
			}
		}
	}
}

// ---- SubtractTrie ------------------------------------------------------------------------------

func c18Subtract(x *vmc.X, c c18cfg) {
	sets := prefixFree("", c.maxLen)
	subtrahends := sets
	if c.maxLen > 3 {
		// 458 330 prefix-free tries over length <=4: the full square is out of reach; every such trie is the
		// minuend, the subtrahend ranges over the 677 tries over length <=3 (and vice versa below)
		subtrahends = prefixFree("", 3)
	}
	for i, k0 := range sets {
		if i%c.of != c.chunk {
			continue
		}
		for _, k1 := range subtrahends {
			t0, t1 := mkTrie(k0), mkTrie(k1)
			res := SubtractTrie(t0, t1)
			var want []string
			for _, k := range k0 {
				if !covers(k1, k) {
					want = append(want, k)
				}
			}
			sort.Strings(want)
			got := trieKeys(res)
			if fmt.Sprint(got) != fmt.Sprint(want) {
				x.Failf("C18/SubtractTrie", "t0=%v t1=%v: got %v want %v", k0, k1, got, want)
				return
			}
			for _, e := range AllEntries(res, bit256.ZeroKey()) {
				if e.Data != "d:"+string(e.Key) {
					x.Failf("C18/SubtractTrie/data", "t0=%v t1=%v: entry %q carries data %q", k0, k1, e.Key, e.Data)
					return
				}
			}
			// inputs must not be modified
			if fmt.Sprint(trieKeys(t0)) != fmt.Sprint(sorted(k0)) || fmt.Sprint(trieKeys(t1)) != fmt.Sprint(sorted(k1)) {
				x.Failf("C18/SubtractTrie/mutates-input", "t0=%v t1=%v", k0, k1)
				return
			}
			x.Eval(len(want) > 0 && len(want) < len(k0))
		}
	}
}

func sorted(l []string) []string {
	o := append([]string{}, l...)
	sort.Strings(o)
	return o
}

// ---- CoalesceTrie ------------------------------------------------------------------------------

func refCoalesce(keys []string) []string {
	set := map[string]bool{}
	for _, k := range keys {
		set[k] = true
	}
	for changed := true; changed; {
		changed = false
		for k := range set {
			if len(k) == 0 {
				continue
			}
			p := k[:len(k)-1]
			if set[p+"0"] && set[p+"1"] {
				delete(set, p+"0")
				delete(set, p+"1")
				set[p] = true
				changed = true
				break
			}
		}
	}
	var out []string
	for k := range set {
		out = append(out, k)
	}
	sort.Strings(out)
	return out
}

func c18Coalesce(x *vmc.X, c c18cfg) {
	for i, keys := range prefixFree("", c.maxLen) {
		if i%c.of != c.chunk {
			continue
		}
		t := mkTrie(keys)
		CoalesceTrie(t)
		got, want := trieKeys(t), refCoalesce(keys)
		if fmt.Sprint(got) != fmt.Sprint(want) {
			x.Failf("C18/CoalesceTrie", "keys=%v: got %v want %v", keys, got, want)
			return
		}
		if t.Size() != len(want) {
			x.Failf("C18/CoalesceTrie/size", "keys=%v: Size()=%d want %d", keys, t.Size(), len(want))
			return
		}
		x.Eval(len(want) != len(keys))
	}
}

// ---- NextNonEmptyLeaf --------------------------------------------------------------------------

func c18NextLeaf(x *vmc.X, c c18cfg) {
	sets := prefixFree("", c.maxLen)
	cands := bitstringsUpTo(c.maxLen)
	orders := bitstrings(3)
	for i, keys := range sets {
		if i%c.of != c.chunk {
			continue
		}
		t := mkTrie(keys)
		for _, k := range cands {
			// k must be in the trie or not overlap with any key
			in, overlap := false, false
			for _, q := range keys {
				if q == k {
					in = true
				} else if strings.HasPrefix(q, k) || strings.HasPrefix(k, q) {
					overlap = true
				}
			}
			if overlap {
				continue
			}
			for _, o := range orders {
				e := NextNonEmptyLeaf(t, bitstr.Key(k), order256(o))
				if len(keys) == 0 {
					if e != nil {
						x.Failf("C18/NextNonEmptyLeaf/empty", "empty trie, k=%q: got %q", k, e.Key)
						return
					}
					x.Eval(false)
					continue
				}
				l := append([]string{}, keys...)
				if !in {
					l = append(l, k)
				}
				sortByOrder(l, o)
				pos := 0
				for j, s := range l {
					if s == k {
						pos = j
					}
				}
				want := ""
				for j := 1; j <= len(l); j++ {
					cand := l[(pos+j)%len(l)]
					if cand != k || in {
						want = cand
						break
					}
				}
				if e == nil || string(e.Key) != want {
					got := "<nil>"
					if e != nil {
						got = string(e.Key)
					}
					x.Failf("C18/NextNonEmptyLeaf", "trie=%v k=%q (in trie: %v) order=%s: got %s want %q", keys, k, in, o, got, want)
					return
				}
				if e.Data != "d:"+want {
					x.Failf("C18/NextNonEmptyLeaf/data", "trie=%v k=%q: data %q", keys, k, e.Data)
					return
				}
				x.Eval(len(keys) > 1)
			}
		}
	}
}

// ---- PruneSubtrie / FindPrefixOfKey / FindSubtrie ------------------------------------------------

func c18PruneFind(x *vmc.X, c c18cfg) {
	sets := prefixFree("", c.maxLen)
	cands := bitstringsUpTo(c.maxLen + 1)
	for i, keys := range sets {
		if i%c.of != c.chunk {
			continue
		}
		for _, k := range cands {
			// PruneSubtrie
			t := mkTrie(keys)
			PruneSubtrie(t, bitstr.Key(k))
			var want []string
			for _, q := range keys {
				if !strings.HasPrefix(q, k) {
					want = append(want, q)
				}
			}
			sort.Strings(want)
			if got := trieKeys(t); fmt.Sprint(got) != fmt.Sprint(want) || t.Size() != len(want) {
				x.Failf("C18/PruneSubtrie", "trie=%v prune %q: got %v (Size %d) want %v", keys, k, got, t.Size(), want)
				return
			}
			// the pruned trie must still be a usable trie: re-adding the removed keys restores it
			for _, q := range keys {
				t.Add(bitstr.Key(q), "d:"+q)
			}
			if got := trieKeys(t); fmt.Sprint(got) != fmt.Sprint(sorted(keys)) {
				x.Failf("C18/PruneSubtrie/reuse", "trie=%v prune %q then re-add: got %v", keys, k, got)
				return
			}
			// FindPrefixOfKey
			t = mkTrie(keys)
			gk, ok := FindPrefixOfKey(t, bitstr.Key(k))
			wk, wok := "", false
			for _, q := range keys {
				if strings.HasPrefix(k, q) {
					wk, wok = q, true
				}
			}
			if ok != wok || (ok && string(gk) != wk) {
				x.Failf("C18/FindPrefixOfKey", "trie=%v k=%q: got (%q,%v) want (%q,%v)", keys, k, gk, ok, wk, wok)
				return
			}
			// FindSubtrie
			st, found := FindSubtrie(t, bitstr.Key(k))
			var under []string
			for _, q := range keys {
				if strings.HasPrefix(q, k) {
					under = append(under, q)
				}
			}
			sort.Strings(under)
			if found != (len(under) > 0) {
				x.Failf("C18/FindSubtrie/found", "trie=%v k=%q: found=%v, keys under k: %v", keys, k, found, under)
				return
			}
			if found {
				if got := trieKeys(st); fmt.Sprint(got) != fmt.Sprint(under) {
					x.Failf("C18/FindSubtrie/content", "trie=%v k=%q: subtrie %v want %v", keys, k, got, under)
					return
				}
			}
			x.Eval(len(under) > 0 && len(under) < len(keys))
		}
	}
}

// ---- KeyspaceCovered ---------------------------------------------------------------------------

func c18Covered(x *vmc.X, c c18cfg) {
	leaves := bitstrings(c.maxLen)
	for i, keys := range prefixFree("", c.maxLen) {
		if i%c.of != c.chunk {
			continue
		}
		want := true
		for _, l := range leaves {
			if !covers(keys, l) {
				want = false
			}
		}
		if got := KeyspaceCovered(mkTrie(keys)); got != want {
			x.Failf("C18/KeyspaceCovered", "keys=%v: got %v want %v", keys, got, want)
			return
		}
		x.Eval(want)
	}
}

// ---- RegionsFromPeers / AssignKeysToRegions ---------------------------------------------------

func refRegions(peers []string, path string, size int, order string) [][2]any {
	// peers: full bitstrings below path. returns list of (prefix, members)
	var b0, b1 []string
	for _, p := range peers {
		if p[len(path)] == '0' {
			b0 = append(b0, p)
		} else {
			b1 = append(b1, p)
		}
	}
	if len(b0) >= size && len(b1) >= size && len(b0) > 0 && len(b1) > 0 {
		ob := order[len(path)]
		first, second := b0, b1
		fb, sb := "0", "1"
		if ob == '1' {
			first, second = b1, b0
			fb, sb = "1", "0"
		}
		return append(refRegions(first, path+fb, size, order), refRegions(second, path+sb, size, order)...)
	}
	return [][2]any{{path, peers}}
}

func c18Regions(x *vmc.X, c c18cfg) {
	cells := bitstrings(4)
	orders := []string{"0000", "1111", "0101", "1010", "0011"}
	covered := bitstringsUpTo(2)
	// keys to assign: one multihash per 3-bit cell
	var keys []mh.Multihash
	for _, k := range bitstrings(3) {
		keys = append(keys, kid.Mh(k, 0))
	}
	cnt := 0
	for _, cp := range covered {
		var under []int
		for i, cell := range cells {
			if strings.HasPrefix(cell, cp) {
				under = append(under, i)
			}
		}
		perCell := 1
		if c.thorough && len(under) <= 8 {
			perCell = 2
		}
		slots := len(under) * perCell
		for m := 1; m < 1<<slots; m++ {
			cnt++
			if cnt%c.of != c.chunk {
				continue
			}
			var peers []peer.ID
			full := map[peer.ID]string{}
			for s := 0; s < slots; s++ {
				if m&(1<<s) != 0 {
					p := kid.Peer(cells[under[s/perCell]], s%perCell)
					peers = append(peers, p)
					full[p] = kid.BitsOf([]byte(p), 256)
				}
			}
			for r := 1; r <= 3; r++ {
				for _, o := range orders {
					o256 := o + strings.Repeat("0", 252)
					regions := RegionsFromPeers(append([]peer.ID{}, peers...), r, order256(o), bitstr.Key(cp))
					var fulls []string
					for _, p := range peers {
						fulls = append(fulls, full[p])
					}
					want := refRegions(fulls, cp, r, o256)
					if len(regions) != len(want) {
						x.Failf("C18/RegionsFromPeers/count", "cells=%v cp=%q r=%d order=%s: %d regions, want %d", cellsOf(peers), cp, r, o, len(regions), len(want))
						return
					}
					seen := map[peer.ID]bool{}
					for i, reg := range regions {
						wp := want[i][0].(string)
						wm := want[i][1].([]string)
						if string(reg.Prefix) != wp {
							x.Failf("C18/RegionsFromPeers/prefix", "cells=%v cp=%q r=%d order=%s: region %d prefix %q want %q", cellsOf(peers), cp, r, o, i, reg.Prefix, wp)
							return
						}
						members := AllValues(reg.Peers, bit256.ZeroKey())
						if len(members) != len(wm) {
							x.Failf("C18/RegionsFromPeers/members", "cells=%v cp=%q r=%d: region %q has %d peers want %d", cellsOf(peers), cp, r, reg.Prefix, len(members), len(wm))
							return
						}
						for _, p := range members {
							if seen[p] || !strings.HasPrefix(full[p], string(reg.Prefix)) {
								x.Failf("C18/RegionsFromPeers/partition", "cells=%v cp=%q r=%d: peer %s twice or outside region %q", cellsOf(peers), cp, r, full[p][:6], reg.Prefix)
								return
							}
							seen[p] = true
						}
						if len(peers) >= r && len(members) < r {
							x.Failf("C18/RegionsFromPeers/too-small", "cells=%v cp=%q r=%d: region %q has %d peers", cellsOf(peers), cp, r, reg.Prefix, len(members))
							return
						}
						for j, other := range regions {
							if i != j && (strings.HasPrefix(string(reg.Prefix), string(other.Prefix))) {
								x.Failf("C18/RegionsFromPeers/overlap", "regions %q and %q overlap", reg.Prefix, other.Prefix)
								return
							}
						}
					}
					if len(seen) != len(peers) {
						x.Failf("C18/RegionsFromPeers/lost-peer", "cells=%v cp=%q r=%d: %d of %d peers placed", cellsOf(peers), cp, r, len(seen), len(peers))
						return
					}
					// the region prefixes partition the covered prefix
					var rp []string
					for _, reg := range regions {
						rp = append(rp, string(reg.Prefix))
					}
					if g := refGaps(rp, cp, 6); len(g) != 0 {
						x.Failf("C18/RegionsFromPeers/gap", "cells=%v cp=%q r=%d: regions %v leave %v uncovered", cellsOf(peers), cp, r, rp, g)
						return
					}
					// AssignKeysToRegions: every key in exactly one region; the matching one if any
					regions = AssignKeysToRegions(regions, keys)
					placed := map[string]string{}
					for _, reg := range regions {
						for _, h := range AllValues(reg.Keys, bit256.ZeroKey()) {
							if _, dup := placed[string(h)]; dup {
								x.Failf("C18/AssignKeysToRegions/duplicate", "key placed twice")
								return
							}
							placed[string(h)] = string(reg.Prefix)
						}
					}
					for _, h := range keys {
						hb := kid.BitsOf(h, 256)
						got, ok := placed[string(h)]
						if !ok {
							x.Failf("C18/AssignKeysToRegions/dropped", "cells=%v cp=%q r=%d: key %s in no region (regions %v)", cellsOf(peers), cp, r, hb[:4], rp)
							return
						}
						match := ""
						matched := false
						bestCpl := -1
						var bestSet []string
						for _, p := range rp {
							if strings.HasPrefix(hb, p) {
								match, matched = p, true
							}
							cpl := 0
							for cpl < len(p) && p[cpl] == hb[cpl] {
								cpl++
							}
							if cpl > bestCpl {
								bestCpl, bestSet = cpl, []string{p}
							} else if cpl == bestCpl {
								bestSet = append(bestSet, p)
							}
						}
						if matched && got != match {
							x.Failf("C18/AssignKeysToRegions/wrong-region", "key %s placed in %q, matches %q", hb[:4], got, match)
							return
						}
						if !matched {
							ok := false
							for _, p := range bestSet {
								if p == got {
									ok = true
								}
							}
							if !ok {
								x.Failf("C18/AssignKeysToRegions/fallback", "key %s placed in %q, nearest regions %v", hb[:4], got, bestSet)
								return
							}
						}
					}
					// composition used by the provider: keys of a region are allocated to the r nearest
					// peers *of that region* by walking reg.Keys and reg.Peers together
					for _, reg := range regions {
						if reg.Keys.IsEmptyLeaf() {
							continue
						}
						members := AllValues(reg.Peers, bit256.ZeroKey())
						al := AllocateToKClosest(reg.Keys, reg.Peers, r)
						gotBy := map[string]map[peer.ID]int{}
						for pid, batches := range al {
							for _, b := range batches {
								for _, h := range b {
									if gotBy[string(h)] == nil {
										gotBy[string(h)] = map[peer.ID]int{}
									}
									gotBy[string(h)][pid]++
								}
							}
						}
						for _, h := range AllValues(reg.Keys, bit256.ZeroKey()) {
							hb := kid.BitsOf(h, 256)
							sort.Slice(members, func(i, j int) bool { return xorDist(full[members[i]], hb) < xorDist(full[members[j]], hb) })
							want := members[:min(r, len(members))]
							g := gotBy[string(h)]
							okAll := len(g) == len(want)
							for _, p := range want {
								if g[p] != 1 {
									okAll = false
								}
							}
							if !okAll {
								var gs, ws []string
								for p := range g {
									gs = append(gs, full[p][:6])
								}
								for _, p := range want {
									ws = append(ws, full[p][:6])
								}
								sort.Strings(gs)
								x.Failf("C18/RegionAllocation", "cells=%v cp=%q r=%d order=%s region %q: key %s allocated to %v, its %d nearest peers of the region are %v", cellsOf(peers), cp, r, o, reg.Prefix, hb[:6], gs, len(want), ws)
								return
							}
						}
					}
					x.Eval(len(regions) > 1)
				}
			}
		}
	}
	if c.chunk == 0 {
		if r := RegionsFromPeers(nil, 2, order256("0"), ""); len(r) != 0 {
			x.Failf("C18/RegionsFromPeers/empty", "no peers must give no regions")
		}
		if r := AssignKeysToRegions(nil, keys); len(r) != 0 {
			x.Failf("C18/AssignKeysToRegions/empty", "no regions in, regions out")
		}
	}
}

func cellsOf(peers []peer.ID) []string {
	var out []string
	for _, p := range peers {
		out = append(out, kid.BitsOf([]byte(p), 6))
	}
	return out
}

// ---- ShortestCoveredPrefix --------------------------------------------------------------------

func c18Shortest(x *vmc.X, c c18cfg) {
	cells := bitstrings(4)
	targets := bitstringsUpTo(4)
	cnt := 0
	for m := 1; m < 1<<16; m++ {
		cnt++
		if cnt%c.of != c.chunk {
			continue
		}
		var peers []peer.ID
		for i := range cells {
			if m&(1<<i) != 0 {
				peers = append(peers, kid.Peer(cells[i], 0))
			}
		}
		for _, target := range targets {
			in := append([]peer.ID{}, peers...)
			gp, gm := ShortestCoveredPrefix(bitstr.Key(target), in)
			cpl := func(p peer.ID) int {
				b := kid.BitsOf([]byte(p), 256)
				n := 0
				for n < len(target) && b[n] == target[n] {
					n++
				}
				return n
			}
			if len(peers) == 1 {
				b := kid.BitsOf([]byte(peers[0]), 256)
				if strings.HasPrefix(b, target) {
					if string(gp) != b || len(gm) != 1 {
						x.Failf("C18/ShortestCoveredPrefix/single-match", "target=%q: got (%q,%d peers)", target, gp, len(gm))
						return
					}
				} else if gp != "" || len(gm) != 0 {
					x.Failf("C18/ShortestCoveredPrefix/single-nomatch", "target=%q: got (%q,%d peers)", target, gp, len(gm))
					return
				}
				x.Eval(false)
				continue
			}
			minCpl := len(target)
			for _, p := range peers {
				if cc := cpl(p); cc < minCpl {
					minCpl = cc
				}
			}
			if minCpl == len(target) {
				// every peer lies inside the target: nothing deeper can be concluded; the documented
				// contract does not define this case beyond "a prefix of target" - check only that.
				if !strings.HasPrefix(target, string(gp)) {
					x.Failf("C18/ShortestCoveredPrefix/not-a-prefix", "target=%q: got %q", target, gp)
					return
				}
				x.Eval(false)
				continue
			}
			wantPrefix := target[:minCpl+1]
			var want []string
			for _, p := range peers {
				if cpl(p) > minCpl {
					want = append(want, string(p))
				}
			}
			sort.Strings(want)
			var got []string
			for _, p := range gm {
				got = append(got, string(p))
			}
			sort.Strings(got)
			if string(gp) != wantPrefix || fmt.Sprint(got) != fmt.Sprint(want) {
				x.Failf("C18/ShortestCoveredPrefix", "target=%q cells=%v: got (%q, %d peers) want (%q, %d peers)", target, cellsOf(peers), gp, len(got), wantPrefix, len(want))
				return
			}
			// every returned peer matches the covered prefix and every listed peer matching it is returned
			for _, p := range peers {
				b := kid.BitsOf([]byte(p), 256)
				isIn := false
				for _, q := range gm {
					if q == p {
						isIn = true
					}
				}
				if strings.HasPrefix(b, string(gp)) != isIn {
					x.Failf("C18/ShortestCoveredPrefix/members", "target=%q: peer %s matching=%v returned=%v", target, b[:5], strings.HasPrefix(b, string(gp)), isIn)
					return
				}
			}
			x.Eval(len(want) > 0)
		}
	}
}

// ---- small helpers ---------------------------------------------------------------------------------

func c18Misc(x *vmc.X, c c18cfg) {
	all := bitstringsUpTo(4)
	for _, a := range all {
		// FlipLastBit
		f := string(FlipLastBit(bitstr.Key(a)))
		if len(a) == 0 {
			if f != "" {
				x.Failf("C18/FlipLastBit", "empty key flipped to %q", f)
			}
		} else if len(f) != len(a) || f[:len(a)-1] != a[:len(a)-1] || f[len(a)-1] == a[len(a)-1] {
			x.Failf("C18/FlipLastBit", "%q flipped to %q", a, f)
		}
		// SiblingPrefixes + key partition the keyspace
		sp := SiblingPrefixes(bitstr.Key(a))
		var parts []string
		for _, s := range sp {
			parts = append(parts, string(s))
		}
		parts = append(parts, a)
		if g := refGaps(parts, "", 5); len(g) != 0 || len(sp) != len(a) {
			x.Failf("C18/SiblingPrefixes", "%q: siblings %v leave gaps %v", a, sp, g)
		}
		for i, p := range parts {
			for j, q := range parts {
				if i != j && strings.HasPrefix(p, q) {
					x.Failf("C18/SiblingPrefixes/overlap", "%q: %q and %q overlap", a, p, q)
				}
			}
		}
		for _, b := range all {
			want := strings.HasPrefix(b, a)
			if IsBitstrPrefix(bitstr.Key(a), bitstr.Key(b)) != want || IsPrefix(bitstr.Key(a), bitstr.Key(b)) != want {
				x.Failf("C18/IsPrefix", "IsPrefix(%q,%q) != %v", a, b, want)
			}
			if IsPrefix(bitstr.Key(a), order256(b)) != strings.HasPrefix(b+strings.Repeat("0", 256-len(b)), a) {
				x.Failf("C18/IsPrefix256", "IsPrefix(%q, bit256 %q...)", a, b)
			}
			x.Eval(want && a != b)
		}
		// ExtendBinaryPrefix
		for n := 0; n <= 6; n++ {
			ext := ExtendBinaryPrefix(bitstr.Key(a), n)
			var want []string
			if n >= len(a) {
				for _, s := range bitstrings(n - len(a)) {
					want = append(want, a+s)
				}
			}
			var got []string
			for _, e := range ext {
				got = append(got, string(e))
			}
			if fmt.Sprint(got) != fmt.Sprint(want) {
				x.Failf("C18/ExtendBinaryPrefix", "(%q,%d): got %v want %v", a, n, got, want)
			}
			x.Eval(len(want) > 1)
		}
		// KeyToBytes
		kb := KeyToBytes(bitstr.Key(a))
		if len(kb) != (len(a)+7)/8 || (len(a) > 0 && kid.BitsRaw(kb, len(a)) != a) {
			x.Failf("C18/KeyToBytes", "%q -> %x", a, kb)
		}
		// FirstFullKeyWithPrefix
		for _, o := range bitstrings(3) {
			ff := string(FirstFullKeyWithPrefix(bitstr.Key(a), order256(o)))
			o256 := o + strings.Repeat("0", 253)
			if len(ff) != 256 || !strings.HasPrefix(ff, a) || ff[len(a):] != o256[len(a):] {
				x.Failf("C18/FirstFullKeyWithPrefix", "(%q, %s): %q", a, o, ff[:8])
			}
		}
	}
}

// c18Embed256: the same shapes embedded in 256-bit keys at bit offsets 0, 7 and 250 (AllocateToKClosest
// on bit256 keys, the type the provider uses).
func c18Embed256(x *vmc.X, c c18cfg) {
	all := bitstrings(3)
	mk := func(off int, s string) bit256.Key {
		return order256(strings.Repeat("0", off) + s)
	}
	cnt := 0
	for _, off := range []int{0, 7, 250} {
		for im := 1; im < 1<<8; im++ {
			cnt++
			if cnt%c.of != c.chunk {
				continue
			}
			for dm := 1; dm < 1<<8; dm++ {
				for k := 1; k <= 3; k++ {
					it := trie.New[bit256.Key, string]()
					dt := trie.New[bit256.Key, string]()
					var items, dests []string
					for i := 0; i < 8; i++ {
						if im&(1<<i) != 0 {
							it.Add(mk(off, all[i]), all[i])
							items = append(items, all[i])
						}
						if dm&(1<<i) != 0 {
							dt.Add(mk(off, all[i]), all[i])
							dests = append(dests, all[i])
						}
					}
					res := AllocateToKClosest(it, dt, k)
					got := map[string]map[string]int{}
					for d, batches := range res {
						for _, b := range batches {
							for _, item := range b {
								if got[item] == nil {
									got[item] = map[string]int{}
								}
								got[item][d]++
							}
						}
					}
					for _, item := range items {
						ds := append([]string{}, dests...)
						sort.Slice(ds, func(i, j int) bool { return xorDist(ds[i], item) < xorDist(ds[j], item) })
						want := ds
						if len(want) > k {
							want = want[:k]
						}
						g := got[item]
						ok := len(g) == len(want)
						for _, d := range want {
							if g[d] != 1 {
								ok = false
							}
						}
						if !ok {
							x.Failf("C18/AllocateToKClosest/bit256", "offset=%d items=%v dests=%v k=%d: item %s -> %v want %v", off, items, dests, k, item, g, want)
							return
						}
					}
					x.Eval(len(dests) > k)
				}
			}
		}
	}
}
