//go:build verif

package queue

import (
	"context"
	"testing"

	"github.com/ipfs/go-libdht/kad/key/bitstr"
	mh "github.com/multiformats/go-multihash"

	"github.com/libp2p/go-libp2p-kad-dht/internal/vmc/jds"
	"github.com/libp2p/go-libp2p-kad-dht/internal/vmc/kid"
)

// TestRegress_C19_EmptyPrefixPersist replays finding D9 without the explorer: keys queued under
// the empty prefix must survive Persist -> DrainDatastore into a fresh queue.
func TestRegress_C19_EmptyPrefixPersist(t *testing.T) {
	ctx := context.Background()
	q := NewProvideQueue()
	keys := []mh.Multihash{kid.Mh("000", 0), kid.Mh("010", 0), kid.Mh("110", 0)}
	q.Enqueue(bitstr.Key(""), keys...)
	store := jds.New()
	if err := q.Persist(ctx, store, 2); err != nil {
		t.Fatal(err)
	}
	q2 := NewProvideQueue()
	if err := q2.DrainDatastore(ctx, store); err != nil {
		t.Fatal(err)
	}
	if q2.Size() != 3 {
		t.Fatalf("restored %d keys, want 3", q2.Size())
	}
	if store.Len() != 0 {
		t.Fatalf("datastore still holds %s", store.Dump())
	}
}
