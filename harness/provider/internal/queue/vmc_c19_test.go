//go:build verif

package queue

import (
	"context"
	"fmt"
	"sort"
	"strings"
	"testing"

	ds "github.com/ipfs/go-datastore"
	"github.com/ipfs/go-libdht/kad/key/bitstr"
	mh "github.com/multiformats/go-multihash"

	"github.com/libp2p/go-libp2p-kad-dht/internal/vmc"
	"github.com/libp2p/go-libp2p-kad-dht/internal/vmc/jds"
	"github.com/libp2p/go-libp2p-kad-dht/internal/vmc/kid"
)

// ---- reference model: an ordered list of non-overlapping prefixes + a key set --------------------

type qmodel struct {
	prefixes []string
	keys     map[int]bool
	cells    []string // kad-id bits (8) of key i
}

func (m *qmodel) under(p string) []int {
	var out []int
	for i := range m.cells {
		if m.keys[i] && strings.HasPrefix(m.cells[i], p) {
			out = append(out, i)
		}
	}
	return out
}

func (m *qmodel) push(p string) {
	first := -1
	var kept []string
	for i, q := range m.prefixes {
		if strings.HasPrefix(q, p) {
			if first < 0 {
				first = i
			}
			continue
		}
		kept = append(kept, q)
	}
	if first >= 0 {
		m.prefixes = append(append(append([]string{}, kept[:first]...), p), kept[first:]...)
		return
	}
	for _, q := range m.prefixes {
		if strings.HasPrefix(p, q) {
			return
		}
	}
	m.prefixes = append(m.prefixes, p)
}

func (m *qmodel) enqueue(p string, ks []int) {
	if len(ks) == 0 {
		return
	}
	m.push(p)
	for _, k := range ks {
		m.keys[k] = true
	}
}

func (m *qmodel) dropEmpty() {
	var kept []string
	for _, q := range m.prefixes {
		if len(m.under(q)) > 0 {
			kept = append(kept, q)
		}
	}
	m.prefixes = kept
}

func (m *qmodel) dequeue() (string, []int, bool) {
	if len(m.prefixes) == 0 {
		return "", nil, false
	}
	p := m.prefixes[0]
	m.prefixes = m.prefixes[1:]
	ks := m.under(p)
	for _, k := range ks {
		delete(m.keys, k)
	}
	return p, ks, true
}

func (m *qmodel) dequeueMatching(p string) []int {
	ks := m.under(p)
	if len(ks) == 0 {
		return nil
	}
	for _, k := range ks {
		delete(m.keys, k)
	}
	var kept []string
	for _, q := range m.prefixes {
		if !strings.HasPrefix(q, p) {
			kept = append(kept, q)
		}
	}
	m.prefixes = kept
	m.dropEmpty()
	return ks
}

func (m *qmodel) remove(ks []int) {
	for _, k := range ks {
		delete(m.keys, k)
	}
	m.dropEmpty()
}

type persisted struct {
	prefix string
	keys   []int
}

func (m *qmodel) snapshot() []persisted {
	var out []persisted
	for _, p := range m.prefixes {
		out = append(out, persisted{p, m.under(p)})
	}
	return out
}

func (m *qmodel) String() string {
	var sb strings.Builder
	for _, p := range m.prefixes {
		fmt.Fprintf(&sb, "[%q:%v]", p, m.under(p))
	}
	var all []int
	for k := range m.keys {
		all = append(all, k)
	}
	sort.Ints(all)
	fmt.Fprintf(&sb, " keys=%v", all)
	return sb.String()
}

// ---- harness -------------------------------------------------------------------------------------

type c19cfg struct {
	kind      string // "provide" or "reprovide"
	cells     []string
	prefixes  []string
	depth     int
	batchSize int
}

func c19Configs(tier string) []vmc.Cfg {
	cellsQ := []string{"000", "001", "010", "100", "110"}
	cellsT := []string{"000", "001", "010", "011", "100", "110"}
	pre2 := []string{"", "0", "1", "00", "01", "10", "11"}
	pre3 := append(append([]string{}, pre2...), "000", "001", "010", "011", "100", "101", "110", "111")
	if tier == "thorough" {
		return []vmc.Cfg{
			{Name: "provide/6keys/len<=3/depth6/batch2", Data: c19cfg{"provide", cellsT, pre3, 6, 2}},
			{Name: "provide/5keys/len<=2/depth7/batch1", Data: c19cfg{"provide", cellsQ, pre2, 7, 1}},
			{Name: "reprovide/len<=3/depth7", Data: c19cfg{"reprovide", nil, pre3, 7, 0}},
		}
	}
	return []vmc.Cfg{
		{Name: "provide/5keys/len<=2/depth5/batch2", Data: c19cfg{"provide", cellsQ, pre2, 5, 2}},
		{Name: "reprovide/len<=3/depth5", Data: c19cfg{"reprovide", nil, pre3, 5, 0}},
	}
}

func TestVMC_C19(t *testing.T) {
	vmc.Main(t, vmc.Harness{ID: "C19", Configs: c19Configs, Run: c19Run, ShardSubtree: true, NoStateFromObs: true})
}

type c19op struct {
	name   string
	prefix string
	keys   []int
}

func subsetsFor(idx []int) [][]int {
	// singletons, pairs and the full set (non-empty subsets of size <=2 plus all)
	var out [][]int
	for i := range idx {
		out = append(out, []int{idx[i]})
	}
	for i := range idx {
		for j := i + 1; j < len(idx); j++ {
			out = append(out, []int{idx[i], idx[j]})
		}
	}
	if len(idx) > 2 {
		out = append(out, append([]int{}, idx...))
	}
	return out
}

func c19Ops(c c19cfg) []c19op {
	var ops []c19op
	if c.kind == "reprovide" {
		for _, p := range c.prefixes {
			ops = append(ops, c19op{name: "enqueue", prefix: p})
		}
		// several prefixes in one call (the provider enqueues batches): same effect as one by one, in order
		for _, many := range []string{"00,1", "0,01,1", "01,0", "000,001,1", "1,0", "10,11,0"} {
			ops = append(ops, c19op{name: "enqueueMany", prefix: many})
		}
		ops = append(ops, c19op{name: "dequeue"})
		for _, p := range c.prefixes {
			ops = append(ops, c19op{name: "remove", prefix: p})
		}
		ops = append(ops, c19op{name: "clear"})
		return ops
	}
	for _, p := range c.prefixes {
		var under []int
		for i, cell := range c.cells {
			if strings.HasPrefix(cell, p) {
				under = append(under, i)
			}
		}
		for _, s := range subsetsFor(under) {
			ops = append(ops, c19op{name: "enqueue", prefix: p, keys: s})
		}
	}
	ops = append(ops, c19op{name: "dequeue"})
	for _, p := range c.prefixes {
		ops = append(ops, c19op{name: "dequeueMatching", prefix: p})
	}
	all := make([]int, len(c.cells))
	for i := range all {
		all[i] = i
	}
	for _, s := range subsetsFor(all) {
		ops = append(ops, c19op{name: "remove", keys: s})
	}
	ops = append(ops, c19op{name: "clear"}, c19op{name: "persist"}, c19op{name: "drain"}, c19op{name: "restart"})
	return ops
}

func c19Run(x *vmc.X, cfg vmc.Cfg) {
	c := cfg.Data.(c19cfg)
	if c.kind == "reprovide" {
		c19RunReprovide(x, c)
		return
	}
	ctx := context.Background()
	mhs := make([]mh.Multihash, len(c.cells))
	cells8 := make([]string, len(c.cells))
	byMh := map[string]int{}
	for i, cell := range c.cells {
		mhs[i] = kid.Mh(cell, 0)
		cells8[i] = kid.BitsOf(mhs[i], 8)
		byMh[string(mhs[i])] = i
	}
	toIdx := func(hs []mh.Multihash) []int {
		var out []int
		for _, h := range hs {
			i, ok := byMh[string(h)]
			if !ok {
				i = -1
			}
			out = append(out, i)
		}
		sort.Ints(out)
		return out
	}
	toMh := func(ks []int) []mh.Multihash {
		out := make([]mh.Multihash, len(ks))
		for i, k := range ks {
			out[i] = mhs[k]
		}
		return out
	}
	ops := c19Ops(c)
	q := NewProvideQueue()
	store := jds.New()
	m := &qmodel{keys: map[int]bool{}, cells: cells8}
	var dsModel []persisted

	// snapshot of the implementation through its fields (non-destructive), for the invariant
	// and the canonical state key. Soundness of the key: the queue's whole state is the deque
	// order, the prefix trie (checked equal to the deque as a set) and the key trie.
	snapshot := func() (string, bool) {
		var pl []string
		for p := range q.queue.queue.Iter() {
			pl = append(pl, string(p))
		}
		if q.queue.prefixes.Size() != len(pl) {
			x.Failf("C19/prefix-trie-size", "prefix trie has %d entries, deque has %d (%v)", q.queue.prefixes.Size(), len(pl), pl)
			return "", false
		}
		got := &qmodel{keys: map[int]bool{}, cells: cells8, prefixes: pl}
		for _, h := range allValues(q) {
			i, ok := byMh[string(h)]
			if !ok {
				x.Failf("C19/foreign-key", "queue holds a key that was never enqueued")
				return "", false
			}
			if got.keys[i] {
				x.Failf("C19/duplicate-key", "key %d is held twice", i)
				return "", false
			}
			got.keys[i] = true
		}
		return got.String(), true
	}
	check := func(step string) bool {
		got, ok := snapshot()
		if !ok {
			return false
		}
		want := m.String()
		if got != want {
			x.Failf("C19/state-differs/"+step, "after %s: queue=%s model=%s", step, got, want)
			return false
		}
		// invariants stated by the property
		for i, p := range m.prefixes {
			for j, r := range m.prefixes {
				if i != j && strings.HasPrefix(p, r) {
					x.Failf("C19/overlap", "prefixes %q and %q overlap", p, r)
					return false
				}
			}
		}
		if q.Size() != len(m.keys) || q.NumRegions() != len(m.prefixes) || q.IsEmpty() != (len(m.keys) == 0) {
			x.Failf("C19/size", "Size=%d NumRegions=%d IsEmpty=%v, model %s", q.Size(), q.NumRegions(), q.IsEmpty(), want)
			return false
		}
		return true
	}
	dsKey := func() string {
		return store.Dump() + fmt.Sprintf("|model:%v", dsModel)
	}

	for step := 0; step < c.depth; step++ {
		k := x.Choose(len(ops)+1, vmc.Free, "op")
		if k == len(ops) {
			break // stop: drain through the public API below
		}
		op := ops[k]
		label := fmt.Sprintf("%s(%q,%v)", op.name, op.prefix, op.keys)
		x.Obs("%s", label)
		switch op.name {
		case "enqueue":
			q.Enqueue(bitstr.Key(op.prefix), toMh(op.keys)...)
			m.enqueue(op.prefix, op.keys)
		case "dequeue":
			p, ks, ok := q.Dequeue()
			mp, mks, mok := m.dequeue()
			if ok != mok || (ok && (string(p) != mp || fmt.Sprint(toIdx(ks)) != fmt.Sprint(mks))) {
				x.Failf("C19/dequeue", "Dequeue=(%q,%v,%v) model (%q,%v,%v)", p, toIdx(ks), ok, mp, mks, mok)
				return
			}
		case "dequeueMatching":
			ks := q.DequeueMatching(bitstr.Key(op.prefix))
			mks := m.dequeueMatching(op.prefix)
			if fmt.Sprint(toIdx(ks)) != fmt.Sprint(mks) {
				x.Failf("C19/dequeueMatching", "DequeueMatching(%q)=%v model %v", op.prefix, toIdx(ks), mks)
				return
			}
		case "remove":
			q.Remove(toMh(op.keys)...)
			m.remove(op.keys)
		case "clear":
			n := q.Clear()
			if n != len(m.keys) {
				x.Failf("C19/clear", "Clear returned %d, model holds %d", n, len(m.keys))
				return
			}
			m.keys = map[int]bool{}
			m.prefixes = nil
		case "persist":
			if err := q.Persist(ctx, store, c.batchSize); err != nil {
				x.Failf("C19/persist-error", "Persist: %v", err)
				return
			}
			dsModel = m.snapshot()
			// what is on disk now, read back the way a restarted process would (into a fresh queue, from a copy of the
			// datastore): exactly the queue as it was persisted - prefixes, order and keys; nothing from earlier persists
			probe := NewProvideQueue()
			if err := probe.DrainDatastore(ctx, store.Clone()); err != nil {
				x.Failf("C19/drain-error", "DrainDatastore (read-back after Persist): %v", err)
				return
			}
			for i := 0; ; i++ {
				pp, ks, ok := probe.Dequeue()
				if !ok {
					if i != len(dsModel) {
						x.Failf("C19/persisted-state", "after %s the datastore reads back as %d prefixes, the queue held %d: %s", label, i, len(dsModel), store.Dump())
						return
					}
					break
				}
				if i >= len(dsModel) || string(pp) != dsModel[i].prefix || fmt.Sprint(toIdx(ks)) != fmt.Sprint(dsModel[i].keys) {
					x.Failf("C19/persisted-state", "after %s the datastore reads back (%q,%v) at position %d, the queue held %v: %s", label, pp, toIdx(ks), i, dsModel, store.Dump())
					return
				}
			}
		case "drain":
			if err := q.DrainDatastore(ctx, store); err != nil {
				x.Failf("C19/drain-error", "DrainDatastore: %v", err)
				return
			}
			for _, e := range dsModel {
				m.enqueue(e.prefix, e.keys)
			}
			dsModel = nil
			if n := store.Len(); n != 0 {
				x.Failf("C19/drain-leaves-entries", "datastore still holds %d entries after DrainDatastore: %s", n, store.Dump())
				return
			}
		case "restart":
			q = NewProvideQueue()
			m.keys = map[int]bool{}
			m.prefixes = nil
		}
		if !check(label) {
			return
		}
		if x.Seen(m.String() + "|" + dsKey()) {
			return
		}
	}
	// final: drain through the public API only and compare with the model
	x.Outcome("final %s", m.String())
	for {
		p, ks, ok := q.Dequeue()
		mp, mks, mok := m.dequeue()
		if ok != mok || (ok && (string(p) != mp || fmt.Sprint(toIdx(ks)) != fmt.Sprint(mks))) {
			x.Failf("C19/final-dequeue", "Dequeue=(%q,%v,%v) model (%q,%v,%v)", p, toIdx(ks), ok, mp, mks, mok)
			return
		}
		if !ok {
			break
		}
		x.Obs("final %q %v", p, mks)
	}
}

func allValues(q *ProvideQueue) []mh.Multihash {
	var out []mh.Multihash
	for _, e := range keysEntries(q) {
		out = append(out, e)
	}
	return out
}

func c19RunReprovide(x *vmc.X, c c19cfg) {
	ops := c19Ops(c)
	q := NewReprovideQueue()
	m := &qmodel{keys: map[int]bool{}}
	for step := 0; step < c.depth; step++ {
		k := x.Choose(len(ops)+1, vmc.Free, "op")
		if k == len(ops) {
			break
		}
		op := ops[k]
		x.Obs("%s(%q)", op.name, op.prefix)
		switch op.name {
		case "enqueue":
			q.Enqueue(bitstr.Key(op.prefix))
			m.push(op.prefix)
		case "enqueueMany":
			var ks []bitstr.Key
			for _, p := range strings.Split(op.prefix, ",") {
				ks = append(ks, bitstr.Key(p))
				m.push(p)
			}
			q.Enqueue(ks...)
		case "dequeue":
			p, ok := q.Dequeue()
			mok := len(m.prefixes) > 0
			mp := ""
			if mok {
				mp = m.prefixes[0]
				m.prefixes = m.prefixes[1:]
			}
			if ok != mok || string(p) != mp {
				x.Failf("C19/reprovide-dequeue", "Dequeue=(%q,%v) model (%q,%v)", p, ok, mp, mok)
				return
			}
		case "remove":
			removed := q.Remove(bitstr.Key(op.prefix))
			var kept []string
			for _, r := range m.prefixes {
				if !strings.HasPrefix(r, op.prefix) {
					kept = append(kept, r)
				}
			}
			mrem := len(kept) != len(m.prefixes)
			m.prefixes = kept
			if removed != mrem {
				x.Failf("C19/reprovide-remove", "Remove(%q)=%v model %v", op.prefix, removed, mrem)
				return
			}
		case "clear":
			n := q.Clear()
			if n != len(m.prefixes) {
				x.Failf("C19/reprovide-clear", "Clear=%d model %d", n, len(m.prefixes))
				return
			}
			m.prefixes = nil
		}
		var pl []string
		for p := range q.queue.queue.Iter() {
			pl = append(pl, string(p))
		}
		if fmt.Sprint(pl) != fmt.Sprint(m.prefixes) || q.Size() != len(m.prefixes) || q.IsEmpty() != (len(m.prefixes) == 0) || q.queue.prefixes.Size() != len(pl) {
			x.Failf("C19/reprovide-state", "queue %v (Size %d, trie %d) model %v", pl, q.Size(), q.queue.prefixes.Size(), m.prefixes)
			return
		}
		for i, p := range pl {
			for j, r := range pl {
				if i != j && strings.HasPrefix(p, r) {
					x.Failf("C19/reprovide-overlap", "prefixes %q and %q overlap", p, r)
					return
				}
			}
		}
		if x.Seen(fmt.Sprint(m.prefixes)) {
			return
		}
	}
	x.Outcome("final %v", m.prefixes)
	for {
		p, ok := q.Dequeue()
		if !ok {
			if len(m.prefixes) != 0 {
				x.Failf("C19/reprovide-final", "queue empty, model %v", m.prefixes)
			}
			break
		}
		if len(m.prefixes) == 0 || m.prefixes[0] != string(p) {
			x.Failf("C19/reprovide-final", "Dequeue=%q model %v", p, m.prefixes)
			return
		}
		m.prefixes = m.prefixes[1:]
	}
}

var _ = ds.ErrNotFound
