//go:build verif

package queue

import (
	mh "github.com/multiformats/go-multihash"

	"github.com/libp2p/go-libp2p-kad-dht/provider/internal/keyspace"
)

// keysEntries lists the multihashes held by the queue's key trie (unexported seam).
func keysEntries(q *ProvideQueue) []mh.Multihash {
	return keyspace.AllValues(q.keys, zeroKey)
}
