//go:build verif

package keystore

import (
	"context"
	"fmt"
	"sort"
	"strings"
	"testing"
	"testing/synctest"

	"github.com/ipfs/go-cid"
	ds "github.com/ipfs/go-datastore"
	"github.com/ipfs/go-libdht/kad/key/bitstr"
	mh "github.com/multiformats/go-multihash"

	"github.com/libp2p/go-libp2p-kad-dht/internal/vmc"
	"github.com/libp2p/go-libp2p-kad-dht/internal/vmc/jds"
	"github.com/libp2p/go-libp2p-kad-dht/internal/vmc/kid"
)

// C20 part "seq": sequential histories of keystore operations on the real Keystore /
// ResettableKeystore (shared and factory mode) against a set model (E4), with
//   - one injected datastore error at any call (E6, budget 1),
//   - clean restarts inside the history,
//   - a terminal crash: every journal instant, with unsynced writes lost in every ordered
//     prefix / single-drop / all / none pattern (E5), followed by reopening.

var c20Cells = []string{"0000000000", "0000000001", "0000000010", "0100000000", "1000000000"}
var c20Prefixes = []string{"", "0", "1", "01", "00000000", "000000000", "0000000000", "0000000001", "000000001", "0000000011"}

type c20cfg struct {
	impl       string // "plain", "shared", "factory"
	prefixBits int
	batchSize  int
	depth      int
	nkeys      int
	faults     bool
	crash      bool
}

func c20Configs(tier string) []vmc.Cfg {
	var out []vmc.Cfg
	depth := 3
	if tier == "thorough" {
		depth = 4
	}
	for _, impl := range []string{"plain", "shared", "factory"} {
		for _, pb := range []int{0, 8} {
			c := c20cfg{impl: impl, prefixBits: pb, batchSize: 2, depth: depth, nkeys: 3, faults: true, crash: true}
			if tier == "thorough" {
				c.nkeys = 4
			}
			out = append(out, vmc.Cfg{Name: fmt.Sprintf("seq/%s/prefixBits%d/batch%d/depth%d/keys%d", impl, pb, c.batchSize, c.depth, c.nkeys), Budget: 1, Data: c})
		}
	}
	return out
}

func TestVMC_C20seq(t *testing.T) {
	vmc.Main(t, vmc.Harness{ID: "C20", Configs: c20Configs, Run: c20SeqRun, Bubble: true, ShardSubtree: true, NoStateFromObs: true})
}

type c20op struct {
	name   string
	keys   []int
	prefix string
	limit  int
}

func (o c20op) String() string {
	switch o.name {
	case "put", "delete", "reset":
		return fmt.Sprintf("%s%v", o.name, o.keys)
	case "get", "contains":
		return fmt.Sprintf("%s(%q)", o.name, o.prefix)
	case "count":
		return fmt.Sprintf("count(%q,%d)", o.prefix, o.limit)
	}
	return o.name
}

func c20Subsets(n int) [][]int {
	var out [][]int
	for i := 0; i < n; i++ {
		out = append(out, []int{i})
	}
	for i := 0; i < n; i++ {
		for j := i + 1; j < n; j++ {
			out = append(out, []int{i, j})
		}
	}
	all := make([]int, n)
	for i := range all {
		all[i] = i
	}
	out = append(out, all)
	return out
}

func c20Ops(c c20cfg) []c20op {
	var ops []c20op
	subs := c20Subsets(c.nkeys)
	for _, s := range subs {
		ops = append(ops, c20op{name: "put", keys: s})
	}
	ops = append(ops, c20op{name: "put", keys: []int{0, 0, 1}}) // duplicate inside one call
	for _, s := range subs {
		ops = append(ops, c20op{name: "delete", keys: s})
	}
	ops = append(ops, c20op{name: "empty"}, c20op{name: "restart"}, c20op{name: "reads"})
	if c.impl != "plain" {
		ops = append(ops, c20op{name: "reset", keys: nil})
		for _, s := range subs {
			ops = append(ops, c20op{name: "reset", keys: s})
		}
		ops = append(ops, c20op{name: "reset", keys: []int{1, 1, 2}})
	}
	return ops
}

// c20env holds the datastores of one execution.
type c20env struct {
	c      c20cfg
	group  *jds.Group
	hook   func(op, key string) error
	bufCap int
}

func (e *c20env) cap() int {
	if e.bufCap > 0 {
		return e.bufCap
	}
	return 2
}

func (e *c20env) store(name string) *jds.Store {
	s := e.group.Open(name)
	s.Hook = e.hook
	return s
}

// open constructs the keystore and waits until its worker has finished loading (quiescence), so
// that start-up datastore calls never race with the first operation of the harness.
func (e *c20env) open() (Keystore, *ResettableKeystore, error) {
	ks, rks, err := e.open0()
	synctest.Wait()
	return ks, rks, err
}

func (e *c20env) open0() (Keystore, *ResettableKeystore, error) {
	opts := []Option{WithPrefixBits(e.c.prefixBits), WithBatchSize(e.c.batchSize)}
	switch e.c.impl {
	case "plain":
		ks, err := NewKeystore(e.store("main"), opts...)
		return ks, nil, err
	case "shared":
		rks, err := NewResettableKeystore(e.store("main"), KeystoreOption(opts...), WithResetBufferCapacity(e.cap()))
		if err != nil {
			return nil, nil, err
		}
		return rks, rks, nil
	default:
		create := func(suffix string) (ds.Batching, error) { return e.store("slot" + suffix), nil }
		destroy := func(suffix string) error { e.group.Destroy("slot" + suffix); return nil }
		rks, err := NewResettableKeystore(e.store("main"), KeystoreOption(opts...), WithResetBufferCapacity(e.cap()), WithDatastoreFactory(create, destroy))
		if err != nil {
			return nil, nil, err
		}
		return rks, rks, nil
	}
}

type c20keys struct {
	mhs  []mh.Multihash
	bits []string
	byMh map[string]int
}

func c20MakeKeys(n int) *c20keys {
	k := &c20keys{byMh: map[string]int{}}
	for i := 0; i < n; i++ {
		h := kid.Mh(c20Cells[i], 0)
		k.mhs = append(k.mhs, h)
		k.bits = append(k.bits, kid.BitsOf(h, 256))
		k.byMh[string(h)] = i
	}
	return k
}

func (k *c20keys) toMh(idx []int) []mh.Multihash {
	out := make([]mh.Multihash, len(idx))
	for i, j := range idx {
		out[i] = k.mhs[j]
	}
	return out
}

func (k *c20keys) toIdx(hs []mh.Multihash) []int {
	out := []int{}
	for _, h := range hs {
		i, ok := k.byMh[string(h)]
		if !ok {
			i = -1
		}
		out = append(out, i)
	}
	sort.Ints(out)
	return out
}

func setStr(m map[int]bool) string {
	var l []int
	for k, v := range m {
		if v {
			l = append(l, k)
		}
	}
	sort.Ints(l)
	return fmt.Sprint(l)
}

func copySet(m map[int]bool) map[int]bool {
	o := map[int]bool{}
	for k, v := range m {
		if v {
			o[k] = true
		}
	}
	return o
}

// c20Reads checks every read operation against the model set.
func c20Reads(x *vmc.X, ks Keystore, keys *c20keys, model map[int]bool, where string) bool {
	ctx := context.Background()
	for _, p := range c20Prefixes {
		var want []int
		for i := range keys.mhs {
			if model[i] && strings.HasPrefix(keys.bits[i], p) {
				want = append(want, i)
			}
		}
		if want == nil {
			want = []int{}
		}
		got, err := ks.Get(ctx, bitstr.Key(p))
		if err != nil {
			x.Failf("C20/get-error", "%s: Get(%q): %v", where, p, err)
			return false
		}
		if fmt.Sprint(keys.toIdx(got)) != fmt.Sprint(want) {
			x.Failf("C20/get", "%s: Get(%q)=%v, model %v (stored %s)", where, p, keys.toIdx(got), want, setStr(model))
			return false
		}
		found, err := ks.ContainsPrefix(ctx, bitstr.Key(p))
		if err != nil || found != (len(want) > 0) {
			x.Failf("C20/contains", "%s: ContainsPrefix(%q)=%v,%v model %v", where, p, found, err, len(want) > 0)
			return false
		}
		for _, limit := range []int{-1, 0, 1, 2} {
			n, err := ks.CountKeysUpTo(ctx, bitstr.Key(p), limit)
			w := len(want)
			if limit > 0 && w > limit {
				w = limit
			}
			if err != nil || n != w {
				x.Failf("C20/count", "%s: CountKeysUpTo(%q,%d)=%d,%v model %d", where, p, limit, n, err, w)
				return false
			}
		}
	}
	sz, err := ks.Size(ctx)
	if err != nil || sz != len(model) {
		x.Failf("C20/size", "%s: Size()=%d,%v but %d keys are stored (%s)", where, sz, err, len(model), setStr(model))
		return false
	}
	return true
}

// contents reads what the keystore holds (Get of the empty prefix).
func c20Contents(ks Keystore, keys *c20keys) (map[int]bool, error) {
	got, err := ks.Get(context.Background(), "")
	if err != nil {
		return nil, err
	}
	m := map[int]bool{}
	for _, i := range keys.toIdx(got) {
		if i < 0 || m[i] {
			return nil, fmt.Errorf("foreign or duplicate key in %v", keys.toIdx(got))
		}
		m[i] = true
	}
	return m, nil
}

type c20hist struct {
	op            c20op
	startJ, ackJ  int
	failed        bool
	before, after map[int]bool
}

func c20SeqRun(x *vmc.X, cfg vmc.Cfg) {
	c := cfg.Data.(c20cfg)
	ctx := context.Background()
	keys := c20MakeKeys(c.nkeys)
	env := &c20env{c: c, group: jds.NewGroup()}
	faultArmed := false // faults are only offered while an operation of the history runs
	injected := false
	env.hook = func(op, key string) error {
		if !faultArmed || !c.faults || injected {
			return nil
		}
		if x.Choose(2, vmc.Env, "fault?") == 1 {
			injected = true
			x.Obs("inject error at %s %s", op, key)
			return jds.ErrInjected
		}
		return nil
	}
	ks, rks, err := env.open()
	if err != nil {
		x.Failf("C20/open", "open: %v", err)
		return
	}
	defer func() { ks.Close() }()
	model := map[int]bool{}
	var hist []c20hist
	ops := c20Ops(c)

	for step := 0; step < c.depth; step++ {
		k := x.Choose(len(ops)+1, vmc.Free, "op")
		if k == len(ops) {
			break
		}
		op := ops[k]
		x.Obs("%s", op)
		h := c20hist{op: op, startJ: env.group.JournalLen(), before: copySet(model)}
		faultArmed = true
		wasInjected := injected
		switch op.name {
		case "put":
			newKeys, err := ks.Put(ctx, keys.toMh(op.keys)...)
			if err != nil {
				h.failed = true
			} else {
				var want []int
				seen := map[int]bool{}
				for _, i := range op.keys {
					if !model[i] && !seen[i] {
						want = append(want, i)
					}
					seen[i] = true
				}
				sort.Ints(want)
				if want == nil {
					want = []int{}
				}
				if fmt.Sprint(keys.toIdx(newKeys)) != fmt.Sprint(want) {
					x.Failf("C20/put-result", "Put%v returned %v as new, model %v (stored %s)", op.keys, keys.toIdx(newKeys), want, setStr(model))
					return
				}
				for _, i := range op.keys {
					model[i] = true
				}
			}
		case "delete":
			if err := ks.Delete(ctx, keys.toMh(op.keys)...); err != nil {
				h.failed = true
			} else {
				for _, i := range op.keys {
					delete(model, i)
				}
			}
		case "empty":
			if err := ks.Empty(ctx); err != nil {
				h.failed = true
			} else {
				model = map[int]bool{}
			}
		case "restart":
			// the datastore calls of Close (size persisted) and of the start-up (size read back, deleted, or
			// recounted) are fault injection points too: whatever fails there, the contents and the reported
			// size after the restart are those of the model
			if err := ks.Close(); err != nil && !(injected && !wasInjected) {
				x.Failf("C20/close-error", "Close: %v", err)
				return
			}
			if err := ks.Close(); err != nil {
				x.Failf("C20/close-twice", "second Close: %v", err)
				return
			}
			ks, rks, err = env.open()
			if err != nil {
				if !(injected && !wasInjected) {
					x.Failf("C20/reopen", "reopen: %v", err)
					return
				}
				// the constructor reported the injected error: open again without faults
				faultArmed = false
				ks, rks, err = env.open()
				if err != nil {
					x.Failf("C20/reopen", "reopen after a failed start-up: %v", err)
					return
				}
			}
			faultArmed = false
			if injected && !wasInjected {
				// start-up is over: the size key the previous Close persisted must be gone again (it lives in the
				// same namespace as the keys, so a survivor is returned by queries as if it were a stored key)
				synctest.Wait()
				if strings.Contains(env.group.Dump(), "/size") {
					x.Failf("C20/size-key-survives-startup", "an injected datastore error during the restart left the keystore's size entry in the key namespace: queries with a short prefix return it as a stored key (datastores: %s)", env.group.Dump())
					return
				}
			}
		case "reads":
			faultArmed = false
		case "reset":
			ch := make(chan cid.Cid, len(op.keys))
			for _, i := range op.keys {
				ch <- cid.NewCidV1(cid.Raw, keys.mhs[i])
			}
			close(ch)
			err := rks.ResetCids(ctx, ch)
			if err != nil || (injected && !wasInjected) {
				// with an injected error the swap may have been aborted silently: previous or new set
				h.failed = true
			} else {
				model = map[int]bool{}
				for _, i := range op.keys {
					model[i] = true
				}
			}
		}
		faultArmed = false
		h.ackJ = env.group.JournalLen()
		h.after = copySet(model)
		if h.failed {
			// The operation reported an error (or a fault hit the reset): its effect is undetermined
			// per key (for reset: previous or new set as a whole). Learn it from the implementation,
			// check that it is an allowed outcome, and continue from there.
			got, err := c20Contents(ks, keys)
			if err != nil {
				x.Failf("C20/contents-after-error", "after failed %s: %v", op, err)
				return
			}
			ok := true
			switch op.name {
			case "reset":
				nw := map[int]bool{}
				for _, i := range op.keys {
					nw[i] = true
				}
				ok = setStr(got) == setStr(h.before) || setStr(got) == setStr(nw)
			case "put":
				for i := range got {
					if !h.before[i] && !contains(op.keys, i) {
						ok = false
					}
				}
				for i := range h.before {
					if !got[i] {
						ok = false
					}
				}
			case "delete":
				for i := range got {
					if !h.before[i] {
						ok = false
					}
				}
				for i := range h.before {
					if !got[i] && !contains(op.keys, i) {
						ok = false
					}
				}
			case "empty":
				for i := range got {
					if !h.before[i] {
						ok = false
					}
				}
			}
			if !ok {
				x.Failf("C20/after-fault/"+op.name, "after %s hit an injected error the keystore holds %s (before: %s)", op, setStr(got), setStr(h.before))
				return
			}
			model = got
			h.after = copySet(model)
		}
		hist = append(hist, h)
		if !c20Reads(x, ks, keys, model, "after "+op.String()) {
			return
		}
		if x.Seen(fmt.Sprintf("%s|%v|%s", setStr(model), injected, env.group.Dump())) {
			return
		}
	}
	x.Outcome("final %s injected=%v", setStr(model), injected)

	// ---- terminal: clean restart must preserve everything -------------------------------------
	if err := ks.Close(); err != nil {
		x.Failf("C20/close-error", "Close: %v", err)
		return
	}
	journal := env.group.Journal()
	ks, rks, err = env.open()
	if err != nil {
		x.Failf("C20/reopen", "reopen: %v", err)
		return
	}
	if !c20Reads(x, ks, keys, model, "after clean restart") {
		return
	}
	if !c.crash || len(hist) == 0 || injected {
		// crash points are not combined with an injected datastore error (see DESIGN.md, C20)
		return
	}
	// ---- terminal: crash at every journal instant of the history (E5) ---------------------------
	// Enumerated in a loop (not as explorer choices): every instant t, and for every store every
	// length of lost suffix of its pending (unsynced) writes.
	lastAck := hist[len(hist)-1].ackJ
	ks.Close()
	for t := 0; t <= lastAck; t++ {
		pending := jds.Pending(journal, t)
		var stores []string
		for n := range pending {
			stores = append(stores, n)
		}
		sort.Strings(stores)
		combos := [][]int{{}}
		for _, n := range stores {
			var nx [][]int
			for _, cmb := range combos {
				for j := 0; j <= len(pending[n]); j++ {
					nx = append(nx, append(append([]int{}, cmb...), j))
				}
			}
			combos = nx
		}
		for _, cmb := range combos {
			lost := map[int]bool{}
			for si, n := range stores {
				k := len(pending[n])
				for _, i := range pending[n][k-cmb[si]:] {
					lost[i] = true
				}
			}
			vmc.Count("crash_images", 1)
			if !c20CheckCrash(x, c, keys, journal, hist, t, lastAck, lost) {
				return
			}
		}
	}
}

func c20CheckCrash(x *vmc.X, c c20cfg, keys *c20keys, journal []jds.Entry, hist []c20hist, t, lastAck int, lost map[int]bool) bool {
	img := jds.CrashImage(journal, t, lost)
	env2 := &c20env{c: c, group: img}
	ks2, _, err := env2.open()
	if err != nil {
		x.Failf("C20/reopen-after-crash", "reopen after crash at %d: %v", t, err)
		return false
	}
	defer ks2.Close()
	got, err := c20Contents(ks2, keys)
	if err != nil {
		x.Failf("C20/contents-after-crash", "crash at %d: %v", t, err)
		return false
	}
	// allowed: every operation acknowledged by instant t is in effect; the one in flight may be
	// applied per key (put/delete/empty) or as a whole (reset).
	base := map[int]bool{}
	var inflight *c20hist
	for i := range hist {
		h := &hist[i]
		if h.ackJ <= t {
			base = h.after
		} else if inflight == nil && h.startJ <= t {
			inflight = h
		}
	}
	ok := true
	if inflight == nil {
		ok = setStr(got) == setStr(base)
	} else if inflight.op.name == "reset" {
		ok = setStr(got) == setStr(inflight.before) || setStr(got) == setStr(inflight.after)
	} else {
		for i := 0; i < c.nkeys; i++ {
			if got[i] != inflight.before[i] && got[i] != inflight.after[i] {
				ok = false
			}
		}
	}
	if !ok {
		desc := "none"
		if inflight != nil {
			desc = inflight.op.String()
		}
		x.Failf("C20/crash-contents", "crash at journal instant %d/%d (lost %v): reopened keystore holds %s; acknowledged state %s, in flight: %s", t, lastAck, lost, setStr(got), setStr(base), desc)
		return false
	}
	return c20Reads(x, ks2, keys, got, fmt.Sprintf("after crash at %d", t))
}

func contains(l []int, v int) bool {
	for _, e := range l {
		if e == v {
			return true
		}
	}
	return false
}
