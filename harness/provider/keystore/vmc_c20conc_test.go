//go:build verif

package keystore

import (
	"context"
	"fmt"
	"sort"
	"strings"
	gosync "sync"
	"testing"
	"testing/synctest"
	"time"

	"github.com/ipfs/go-cid"

	"github.com/libp2p/go-libp2p-kad-dht/internal/vmc"
	"github.com/libp2p/go-libp2p-kad-dht/internal/vmc/jds"
)

// C20 part "conc" (E2): ResetCids racing with concurrent Puts, the Phase-A drain ticker,
// cancellation and Close, under the controlled scheduler with a scheduling point at every
// datastore call of every goroutine. Terminal checks: live contents, clean restart, and a crash
// at any journal instant (ordered loss per store).

type c20ccfg struct {
	impl      string
	batchSize int
	bufCap    int
	old       []int
	stream    []int
	puts      []int
	cancel    bool
	closer    bool
	crash     bool
	oneCall   bool // the puts are one Put call with all the keys (more keys than two reset buffers hold)
}

func c20cConfigs(tier string) []vmc.Cfg {
	var out []vmc.Cfg
	budget := 2
	if tier == "thorough" {
		budget = 3
	}
	for _, impl := range []string{"shared", "factory"} {
		for _, v := range []struct {
			name string
			c    c20ccfg
		}{
			{"put-old-key+new-key", c20ccfg{batchSize: 1, bufCap: 1, old: []int{0}, stream: []int{1, 2}, puts: []int{0, 3}, crash: true}},
			{"batch2-cap2", c20ccfg{batchSize: 2, bufCap: 2, old: []int{0}, stream: []int{1, 2}, puts: []int{3, 0}, crash: true}},
			{"put-stream-key", c20ccfg{batchSize: 2, bufCap: 1, old: []int{0, 1}, stream: []int{2}, puts: []int{2, 1}, crash: true}},
			{"one-put-larger-than-two-buffers", c20ccfg{batchSize: 1, bufCap: 1, old: []int{0}, stream: []int{1}, puts: []int{3, 4, 2}, oneCall: true, crash: true}},
			{"cancel", c20ccfg{batchSize: 1, bufCap: 1, old: []int{0}, stream: []int{1, 2}, puts: []int{3}, cancel: true}},
			{"close", c20ccfg{batchSize: 1, bufCap: 1, old: []int{0}, stream: []int{1, 2}, puts: []int{3}, closer: true}},
		} {
			c := v.c
			c.impl = impl
			b := budget
			if c.cancel || c.closer {
				b = budget // the cancel/close action itself is one deviation
			}
			out = append(out, vmc.Cfg{Name: fmt.Sprintf("conc/%s/%s", impl, v.name), Budget: b, Data: c})
		}
	}
	return out
}

func TestVMC_C20conc(t *testing.T) {
	vmc.Main(t, vmc.Harness{ID: "C20", Configs: c20cConfigs, Run: c20ConcRun, Bubble: true, ShardSubtree: true})
}

// c20CrashSeen caches the verdict of the crash analysis per (configuration, journal+events):
// "" = every crash image allowed, otherwise "sig\x00msg" of the violation (re-reported on a hit).
var c20CrashSeen = map[string]map[string]string{}

type c20event struct {
	what   string
	key    int
	seq    int
	err    error
	callAt int
	retAt  int
	j      int // journal length at return
}

func c20ConcRun(x *vmc.X, cfg vmc.Cfg) {
	c := cfg.Data.(c20ccfg)
	ctx := context.Background()
	keys := c20MakeKeys(5)
	sc := c20cfg{impl: c.impl, prefixBits: 0, batchSize: c.batchSize}
	env := &c20env{c: sc, group: jds.NewGroup()}
	sched := vmc.NewSched(x)
	schedOn := false
	env.hook = func(op, key string) error {
		if schedOn {
			sched.Point(op + " " + key)
		}
		return nil
	}
	env.bufCap = c.bufCap
	ks, rks, err := env.open()
	if err != nil {
		x.Failf("C20/open", "open: %v", err)
		return
	}
	closed := false
	defer func() {
		sched.Finish()
		if !closed {
			ks.Close()
		}
	}()
	if len(c.old) > 0 {
		if _, err := ks.Put(ctx, keys.toMh(c.old)...); err != nil {
			x.Failf("C20/setup", "setup put: %v", err)
			return
		}
	}
	synctest.Wait()
	setupJ := env.group.JournalLen()
	old := map[int]bool{}
	for _, i := range c.old {
		old[i] = true
	}
	nw := map[int]bool{}
	for _, i := range c.stream {
		nw[i] = true
	}

	var mu gosync.Mutex
	clock := 0
	tick := func() int { mu.Lock(); defer mu.Unlock(); clock++; return clock }
	puts := make([]*c20event, len(c.puts))
	reset := &c20event{what: "reset"}
	rctx, rcancel := context.WithCancel(ctx)
	defer rcancel()
	ch := make(chan cid.Cid)

	resetDone := make(chan struct{})
	feederInSend, putterInCall := false, false
	streamClosed := false
	schedOn = true
	sched.Go("reset", func() {
		defer close(resetDone)
		reset.callAt = tick()
		reset.err = rks.ResetCids(rctx, ch)
		reset.retAt = tick()
		reset.j = env.group.JournalLen()
	})
	sched.Go("feeder", func() {
		for _, i := range c.stream {
			sched.Point(fmt.Sprintf("feed k%d", i))
			select {
			case <-resetDone:
				return
			default:
			}
			mu.Lock()
			feederInSend = true
			mu.Unlock()
			select {
			case ch <- cid.NewCidV1(cid.Raw, keys.mhs[i]):
			case <-resetDone:
			}
			mu.Lock()
			feederInSend = false
			mu.Unlock()
		}
		sched.Point("close-stream")
		mu.Lock()
		streamClosed = true
		mu.Unlock()
		close(ch)
	})
	sched.Go("putter", func() {
		if c.oneCall {
			mu.Lock()
			putterInCall = true
			mu.Unlock()
			callAt := tick()
			_, err := ks.Put(ctx, keys.toMh(c.puts)...)
			retAt := tick()
			j := env.group.JournalLen()
			mu.Lock()
			for n, i := range c.puts {
				puts[n] = &c20event{what: "put", key: i, seq: n, err: err, callAt: callAt, retAt: retAt, j: j}
			}
			putterInCall = false
			mu.Unlock()
			return
		}
		for n, i := range c.puts {
			if n > 0 {
				sched.Point(fmt.Sprintf("put k%d", i))
			}
			e := &c20event{what: "put", key: i, seq: n}
			mu.Lock()
			putterInCall = true
			mu.Unlock()
			e.callAt = tick()
			_, e.err = ks.Put(ctx, keys.mhs[i])
			e.retAt = tick()
			e.j = env.group.JournalLen()
			mu.Lock()
			puts[n] = e
			putterInCall = false
			mu.Unlock()
		}
	})
	cancelled, closeCalled := false, false
	ticks := 0
	idle := 0
	harnessLabel := func(l string) bool {
		return strings.HasSuffix(l, "@start") || strings.Contains(l, "@feed ") || strings.HasSuffix(l, "@close-stream") || strings.Contains(l, "@put k")
	}
	for steps := 0; steps < 600; steps++ {
		synctest.Wait()
		parked := sched.Parked()
		if len(parked) == 0 {
			if sched.AllDone() {
				break
			}
			// nothing is at a scheduling point: the only way forward is virtual time (drain ticker)
			idle++
			if idle > 8 {
				x.Failf("C20/hang", "no goroutine can make progress; unfinished threads %v (cancelled=%v close=%v)", sched.Unfinished(), cancelled, closeCalled)
				return
			}
			time.Sleep(phaseADrainInterval)
			continue
		}
		idle = 0
		// Environment actions are only offered at *quiet* instants: no goroutine is inside a datastore
		// call, the feeder is not blocked handing over a key and no Put call is in flight. At such an
		// instant ResetCids waits in its Phase-A select (or has finished), so exactly one select case
		// becomes ready by the action; elsewhere the implementation's own selects would have several
		// ready cases and Go would pick one at random (nondeterminism the explorer cannot own).
		quiet := true
		for _, l := range parked {
			if !harnessLabel(l) {
				quiet = false
			}
		}
		mu.Lock()
		if feederInSend || putterInCall {
			quiet = false
		}
		mu.Unlock()
		var acts []vmc.Action
		resetRunning := !sched.Done("reset")
		for _, l := range parked {
			if strings.HasPrefix(l, "reset@") {
				resetRunning = false
			}
		}
		if quiet && resetRunning {
			if c.cancel && !cancelled && !closeCalled {
				acts = append(acts, vmc.Action{Label: "cancel-reset-ctx", Cost: 1, Do: func() { cancelled = true; rcancel() }})
			}
			if c.closer && !closeCalled && !cancelled {
				acts = append(acts, vmc.Action{Label: "close-keystore", Cost: 1, Do: func() {
					closeCalled = true
					sched.GoNow("closer", func() { ks.Close() })
				}})
			}
			if ticks < 2 && !closeCalled && !cancelled {
				acts = append(acts, vmc.Action{Label: "drain-ticker", Cost: 1, Do: func() { ticks++; time.Sleep(phaseADrainInterval) }})
			}
		}
		if !sched.Step(acts) {
			break
		}
	}
	synctest.Wait()
	if !sched.AllDone() {
		x.Failf("C20/hang", "step budget exhausted; unfinished threads %v parked %v", sched.Unfinished(), sched.Parked())
		return
	}
	sched.Finish()
	schedOn = false
	synctest.Wait()
	closed = closeCalled
	_ = streamClosed

	// ---- oracle on the final contents -----------------------------------------------------------
	disturbed := cancelled || closeCalled
	allowed := func(got map[int]bool, upTo int, crash bool) (bool, string) {
		// upTo: journal instant of a crash (only operations acknowledged by then are mandatory); -1 = live
		acked := func(e *c20event) bool {
			return e != nil && e.err == nil && e.retAt > 0 && (upTo < 0 || e.j <= upTo)
		}
		// family "previous set": old + every acknowledged put
		okOld := true
		for i := 0; i < 5; i++ {
			must, may := old[i], old[i]
			for _, e := range puts {
				if e != nil && e.key == i {
					may = true
					if acked(e) {
						must = true
					}
				}
			}
			for n, e := range puts {
				if e == nil && c.puts[n] == i {
					may = true // call in flight / never finished
				}
			}
			if (must && !got[i]) || (!may && got[i]) {
				okOld = false
			}
		}
		// family "new set": stream + puts acknowledged during/after the reset
		okNew := true
		for i := 0; i < 5; i++ {
			must, may := nw[i], nw[i]
			for n, e := range puts {
				if c.puts[n] != i {
					continue
				}
				if e == nil {
					may = true
					continue
				}
				if e.retAt < reset.callAt {
					continue // acknowledged before the reset was called: replaced by the reset
				}
				may = true
				if acked(e) && e.callAt > reset.callAt {
					must = true
				}
			}
			if (must && !got[i]) || (!may && got[i]) {
				okNew = false
			}
		}
		resetOK := reset.err == nil && reset.retAt > 0
		switch {
		case crash:
			// the reset may or may not have taken effect by the crash instant
			if upTo >= 0 && resetOK && reset.j <= upTo && !disturbed {
				return okNew, "new set required (reset acknowledged before the crash)"
			}
			return okOld || okNew, "previous or new set"
		case resetOK && !disturbed:
			return okNew, "new set required (reset returned nil)"
		case reset.err != nil:
			return okOld, "previous set required (reset returned an error)"
		default:
			return okOld || okNew, "previous or new set"
		}
	}
	describe := func() string {
		s := fmt.Sprintf("reset(call@%d ret@%d failed=%v)", reset.callAt, reset.retAt, reset.err != nil)
		for n, e := range puts {
			if e == nil {
				s += fmt.Sprintf(" put#%d(k%d: unfinished)", n, c.puts[n])
			} else {
				s += fmt.Sprintf(" put#%d(k%d call@%d ret@%d failed=%v)", n, e.key, e.callAt, e.retAt, e.err != nil)
			}
		}
		return s
	}
	var live map[int]bool
	if !closed {
		live, err = c20Contents(ks, keys)
		if err != nil {
			x.Failf("C20/contents", "%v", err)
			return
		}
		if ok, why := allowed(live, -1, false); !ok {
			x.Failf("C20/reset-contents", "after the run the keystore holds %s; %s; old=%v stream=%v; %s", setStr(live), why, c.old, c.stream, describe())
			return
		}
		if !c20Reads(x, ks, keys, live, "after concurrent reset") {
			return
		}
		if err := ks.Close(); err != nil {
			x.Failf("C20/close-error", "Close: %v", err)
			return
		}
		closed = true
	}
	x.Obs("live=%s %s", setStr(live), describe())
	x.Outcome("live=%s reset.failed=%v cancelled=%v closed=%v", setStr(live), reset.err != nil, cancelled, closeCalled)
	journal := env.group.Journal()
	// clean restart
	ks2, _, err := env.open()
	if err != nil {
		x.Failf("C20/reopen", "reopen: %v", err)
		return
	}
	got, err := c20Contents(ks2, keys)
	if err == nil && live != nil && setStr(got) != setStr(live) {
		x.Failf("C20/restart-differs", "before clean restart %s, after %s; %s", setStr(live), setStr(got), describe())
	} else if err == nil {
		if ok, why := allowed(got, -1, false); !ok {
			x.Failf("C20/reset-contents-after-restart", "reopened keystore holds %s; %s; %s", setStr(got), why, describe())
		} else {
			c20Reads(x, ks2, keys, got, "after clean restart")
		}
	}
	ks2.Close()
	if x.Failed() || !c.crash {
		return
	}
	// crash at every journal instant of the run (after the set-up), every lost suffix per store.
	// The analysis depends only on the journal and on the call/acknowledge events, so it is done
	// once per distinct (journal, events) pair per worker process.
	jk := describe()
	for _, e := range journal[setupJ:] {
		jk += "|" + e.Store + e.Op + e.Key
	}
	for _, e := range puts {
		if e != nil {
			jk += fmt.Sprintf("|j%d", e.j)
		}
	}
	jk += fmt.Sprintf("|r%d|%v", reset.j, disturbed)
	if c20CrashSeen[cfg.Name] == nil {
		c20CrashSeen[cfg.Name] = map[string]string{}
	}
	if v, ok := c20CrashSeen[cfg.Name][jk]; ok {
		if v != "" {
			parts := strings.SplitN(v, "\x00", 2)
			x.Failf(parts[0], "%s", parts[1])
		}
		return
	}
	c20CrashSeen[cfg.Name][jk] = ""
	fail := func(sig, format string, args ...any) {
		msg := fmt.Sprintf(format, args...)
		c20CrashSeen[cfg.Name][jk] = sig + "\x00" + msg
		x.Failf(sig, "%s", msg)
	}
	vmc.Count("distinct_journals_crash_analysed", 1)
	for t := setupJ; t <= len(journal); t++ {
		pending := jds.Pending(journal, t)
		var stores []string
		for n := range pending {
			stores = append(stores, n)
		}
		sort.Strings(stores)
		combos := [][]int{{}}
		for _, n := range stores {
			var nx [][]int
			for _, cmb := range combos {
				for j := 0; j <= len(pending[n]); j++ {
					nx = append(nx, append(append([]int{}, cmb...), j))
				}
			}
			combos = nx
		}
		for _, cmb := range combos {
			lost := map[int]bool{}
			for si, n := range stores {
				k := len(pending[n])
				for _, i := range pending[n][k-cmb[si]:] {
					lost[i] = true
				}
			}
			vmc.Count("crash_images", 1)
			img := jds.CrashImage(journal, t, lost)
			env3 := &c20env{c: sc, group: img, bufCap: c.bufCap}
			ks3, _, err := env3.open()
			if err != nil {
				fail("C20/reopen-after-crash", "crash at %d: %v", t, err)
				return
			}
			got3, err := c20Contents(ks3, keys)
			if err != nil {
				ks3.Close()
				fail("C20/contents-after-crash", "crash at %d: %v", t, err)
				return
			}
			if ok, why := allowed(got3, t, true); !ok {
				ks3.Close()
				fail("C20/crash-contents-conc", "crash at journal instant %d/%d (lost %v): reopened keystore holds %s; %s; %s", t, len(journal), lost, setStr(got3), why, describe())
				return
			}
			ok := c20Reads(x, ks3, keys, got3, fmt.Sprintf("after crash at %d", t))
			ks3.Close()
			if !ok {
				c20CrashSeen[cfg.Name][jk] = "C20/reads-after-crash\x00reads after crash at " + fmt.Sprint(t) + " disagree with the contents"
				return
			}
		}
	}
}
