//go:build verif

package keystore

import (
	"context"
	"fmt"
	"strings"
	gosync "sync"
	"testing"
	"testing/synctest"
	"time"

	"github.com/ipfs/go-cid"

	"github.com/libp2p/go-libp2p-kad-dht/internal/vmc"
	"github.com/libp2p/go-libp2p-kad-dht/internal/vmc/jds"
)

// C14 (keystores): Close, and cancellation of a running ResetCids followed by Close, at the
// instants of a reset / put at which the implementation's own selects have a single ready case
// (elsewhere Go picks a ready case at random, which no explorer can own):
//   Q  quiet instants: nobody is inside a datastore call or blocked handing something over;
//   W  the worker is inside a datastore call on behalf of a reset operation and ResetCids waits
//      for its answer;
//   R  ResetCids itself is inside a datastore call on the alternate namespace, the worker is idle.
// Every datastore call is a scheduling point that does not observe cancellation.
// Oracle: Close returns; at that instant nobody is inside a datastore call of the keystore
// (neither its worker nor an in-flight ResetCids write) and none starts later; the interrupted
// calls return; later calls are refused; a second Close is harmless; no goroutine is left.

type c14kcfg struct {
	impl    string // plain | shared | factory
	event   string // close | cancel+close
	withPut bool
}

func c14kConfigs(tier string) []vmc.Cfg {
	var out []vmc.Cfg
	b := 2
	if tier == "thorough" {
		b = 3
	}
	for _, impl := range []string{"shared", "factory", "plain"} {
		for _, ev := range []string{"close", "cancel+close", "cancel-put+close"} {
			for _, wp := range []bool{false, true} {
				if impl == "plain" && (ev == "cancel+close" || !wp) {
					continue
				}
				if ev == "cancel-put+close" && !wp {
					continue
				}
				out = append(out, vmc.Cfg{Name: fmt.Sprintf("keystore-close/%s/%s/put=%v", impl, ev, wp), Budget: b, Data: c14kcfg{impl, ev, wp}})
			}
		}
	}
	return out
}

func TestVMC_C14keystore(t *testing.T) {
	vmc.Main(t, vmc.Harness{ID: "C14", Configs: c14kConfigs, Run: c14kRun, Bubble: true, ShardSubtree: true})
}

func c14kLeaks() []string {
	var real []string
	for _, g := range vmc.LeakedGoroutines() {
		if strings.Contains(g, "synctest.") || strings.Contains(g, "c14k") {
			continue
		}
		real = append(real, g)
	}
	return real
}

func c14kRun(x *vmc.X, cfg vmc.Cfg) {
	c := cfg.Data.(c14kcfg)
	ctx := context.Background()
	keys := c20MakeKeys(5)
	env := &c20env{c: c20cfg{impl: c.impl, prefixBits: 0, batchSize: 1}, group: jds.NewGroup(), bufCap: 1}
	s := vmc.NewSched(x)
	s.StrictOrder = true
	on := false
	var mu gosync.Mutex
	dsCalls, fence := 0, -1
	var afterFence []string
	env.hook = func(op, key string) error {
		if on {
			s.Point("ds:" + op + " " + key)
		}
		mu.Lock()
		dsCalls++
		if fence >= 0 {
			afterFence = append(afterFence, op+" "+key)
		}
		mu.Unlock()
		return nil
	}
	ks, rks, err := env.open()
	if err != nil {
		x.Failf("C14/setup", "%v", err)
		return
	}
	closeStarted, closeReturned := false, false
	defer func() {
		s.Finish()
		on = false
		if !closeStarted || closeReturned {
			ks.Close()
		}
	}()
	if _, err := ks.Put(ctx, keys.mhs[0]); err != nil {
		x.Failf("C14/setup", "%v", err)
		return
	}
	synctest.Wait()
	on = true

	rctx, rcancel := context.WithCancel(ctx)
	defer rcancel()
	ch := make(chan cid.Cid)
	resetDone := make(chan struct{})
	var resetErr, putErr, closeErr error
	feederInSend, putterInCall, stopFeeding := false, false, false
	if rks != nil {
		s.Go("reset", func() {
			defer close(resetDone)
			resetErr = rks.ResetCids(rctx, ch)
		})
		s.Go("feeder", func() {
			for _, i := range []int{1, 2} {
				s.Point(fmt.Sprintf("feed k%d", i))
				mu.Lock()
				stop := stopFeeding
				if !stop {
					feederInSend = true
				}
				mu.Unlock()
				if stop {
					return
				}
				select {
				case ch <- cid.NewCidV1(cid.Raw, keys.mhs[i]):
				case <-resetDone:
				}
				mu.Lock()
				feederInSend = false
				mu.Unlock()
			}
			s.Point("close-stream")
			mu.Lock()
			stop := stopFeeding
			mu.Unlock()
			if !stop {
				close(ch)
			}
		})
	}
	pctx, pcancel := context.WithCancel(ctx)
	defer pcancel()
	if c.withPut {
		s.Go("putter", func() {
			mu.Lock()
			putterInCall = true
			mu.Unlock()
			_, putErr = ks.Put(pctx, keys.mhs[3])
			mu.Lock()
			putterInCall = false
			mu.Unlock()
		})
	}
	harnessLabel := func(l string) bool { return !strings.Contains(l, "@ds:") }
	cancelled := false
	var hist []string
	idle := 0
	for steps := 0; steps < 800; steps++ {
		synctest.Wait()
		if closeStarted && s.Done("closer") && !closeReturned {
			closeReturned = true
			mu.Lock()
			fence = dsCalls
			mu.Unlock()
			var inDs []string
			for _, l := range s.Parked() {
				if !harnessLabel(l) {
					inDs = append(inDs, l)
				}
			}
			if len(inDs) > 0 {
				x.Failf("C14/keystore/close-returned-early", "%s %v: Close returned while %v is still inside a datastore call of the keystore", c.impl, hist, inDs)
				return
			}
		}
		parked := s.Parked()
		if len(parked) == 0 {
			if s.AllDone() {
				break
			}
			idle++
			if idle > 8 {
				break
			}
			time.Sleep(phaseADrainInterval)
			continue
		}
		idle = 0
		// classify the instant
		mu.Lock()
		handover := feederInSend
		inPut := putterInCall
		mu.Unlock()
		var dsParked []string
		for _, l := range parked {
			if !harnessLabel(l) {
				dsParked = append(dsParked, l)
			}
		}
		resetRunning := rks != nil && !s.Done("reset")
		for _, l := range parked {
			if l == "reset@start" {
				resetRunning = false // ResetCids has not been called yet (a cancelled context at the call makes its first select random)
			}
		}
		resetParkedInDs, workerParkedInDs := false, false
		for _, l := range dsParked {
			if strings.HasPrefix(l, "reset@") {
				resetParkedInDs = true
			} else if !strings.HasPrefix(l, "putter@") && !strings.HasPrefix(l, "closer@") {
				workerParkedInDs = true
			}
		}
		class := ""
		switch {
		case handover:
		case len(dsParked) == 0 && !inPut:
			class = "Q"
		case workerParkedInDs && !resetParkedInDs && len(dsParked) == 1 && resetRunning && !inPut:
			class = "W"
		case workerParkedInDs && len(dsParked) == 1 && inPut && !resetRunning:
			class = "P" // the worker is inside a datastore call for the Put, nobody else around
		case resetParkedInDs && len(dsParked) == 1 && !inPut:
			class = "R"
		}
		var acts []vmc.Action
		if !closeStarted && class != "" {
			if c.event == "cancel+close" && !cancelled && resetRunning && (class == "Q" || class == "W") {
				acts = append(acts, vmc.Action{Label: "cancel", Do: func() {
					cancelled = true
					hist = append(hist, "cancel@"+class+fmt.Sprint(dsParked))
					mu.Lock()
					stopFeeding = true
					mu.Unlock()
					rcancel()
				}})
			}
			if c.event == "cancel-put+close" && !cancelled && class == "P" {
				acts = append(acts, vmc.Action{Label: "cancel-put", Do: func() {
					cancelled = true
					hist = append(hist, "cancel-put@"+class+fmt.Sprint(dsParked))
					pcancel()
				}})
			}
			if c.event == "close" || cancelled {
				acts = append(acts, vmc.Action{Label: "close", Do: func() {
					closeStarted = true
					hist = append(hist, "close@"+class+fmt.Sprint(dsParked))
					mu.Lock()
					stopFeeding = true
					mu.Unlock()
					s.GoNow("closer", func() { closeErr = ks.Close() })
				}})
			}
		}
		s.Step(acts)
	}
	synctest.Wait()
	if !closeStarted {
		// the base schedule ran to its end without Close: close now (quiet)
		closeStarted = true
		hist = append(hist, "close@end")
		s.GoNow("closer", func() { closeErr = ks.Close() })
		for i := 0; i < 50; i++ {
			synctest.Wait()
			if s.Done("closer") || len(s.Parked()) == 0 {
				break
			}
			s.Step(nil)
		}
		synctest.Wait()
		if s.Done("closer") {
			closeReturned = true
			mu.Lock()
			fence = dsCalls
			mu.Unlock()
		}
	}
	if !s.AllDone() {
		x.Failf("C14/keystore/deadlock", "%s %v: threads %v cannot finish (parked %v); goroutines %v", c.impl, hist, s.Unfinished(), s.Parked(), c14kLeaks())
		return
	}
	closeReturned = true
	s.Finish()
	if closeErr != nil {
		x.Failf("C14/keystore/close-error", "%s %v: %v", c.impl, hist, closeErr)
	}
	// calls after Close are refused and touch nothing; a second Close is harmless
	late := make(chan string, 1)
	go func() {
		_, e1 := ks.Put(ctx, keys.mhs[4])
		_, e2 := ks.Get(ctx, "")
		var e3 error
		if rks != nil {
			c2 := make(chan cid.Cid)
			close(c2)
			e3 = rks.ResetCids(ctx, c2)
		} else {
			e3 = ErrClosed
		}
		e4 := ks.Close()
		late <- fmt.Sprintf("put=%v has=%v reset=%v close=%v", e1 != nil, e2 != nil, e3 != nil, e4)
	}()
	synctest.Wait()
	select {
	case r := <-late:
		if r != "put=true has=true reset=true close=<nil>" {
			x.Failf("C14/keystore/after-close", "%s %v: calls after Close: %s (want all refused, second Close nil)", c.impl, hist, r)
		}
	default:
		time.Sleep(time.Minute)
		synctest.Wait()
		select {
		case <-late:
		default:
			x.Failf("C14/keystore/after-close-hangs", "%s %v: a call made after Close does not return; goroutines %v", c.impl, hist, c14kLeaks())
			return
		}
	}
	mu.Lock()
	af := append([]string(nil), afterFence...)
	mu.Unlock()
	if len(af) > 0 {
		x.Failf("C14/keystore/datastore-touched-after-close", "%s %v: %d datastore call(s) after Close had returned: %v", c.impl, hist, len(af), af)
	}
	synctest.Wait()
	if left := c14kLeaks(); len(left) > 0 {
		x.Failf("C14/keystore/leak", "%s %v: after Close %d goroutine(s) remain: %v", c.impl, hist, len(left), left)
	}
	_ = resetErr
	_ = putErr
	x.Eval(len(hist) > 0 && !strings.HasSuffix(hist[len(hist)-1], "@end"))
	x.Outcome("%v reset=%v put=%v", hist, resetErr != nil, putErr != nil)
}
