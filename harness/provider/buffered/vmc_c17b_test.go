//go:build verif

package buffered

import (
	"encoding/base64"
	"fmt"
	"sort"
	"strings"
	"testing"
	"testing/synctest"
	"time"

	mh "github.com/multiformats/go-multihash"

	"github.com/libp2p/go-libp2p-kad-dht/internal/vmc"
	"github.com/libp2p/go-libp2p-kad-dht/internal/vmc/jds"
	"github.com/libp2p/go-libp2p-kad-dht/internal/vmc/kid"
)

// C17 (buffered wrapper): queued start/stop/provide-once operations have the same final effect
// as applying them one by one, for every operation sequence, every batch boundary (the worker is
// parked inside the wrapped provider while more operations are queued), and across restarts.
//
// Part "coalesce": getOperations on every sequence over {once,start,force,stop} x {k0,k1}.
// Part "wrapper": the real wrapper + real dsqueue over an in-memory datastore, the wrapped
// provider is the sequential reference model with a gate at every call.

const (
	c17bOnce  = 0
	c17bStart = 1
	c17bForce = 2
	c17bStop  = 3
)

var c17bOpNames = []string{"once", "start", "force", "stop"}

// sequential reference: what applying the operations one by one does
type c17bModel struct {
	kept map[int]bool
	adv  map[int]int
}

func newC17bModel() *c17bModel {
	return &c17bModel{kept: map[int]bool{0: true}, adv: map[int]int{}} // k0 is already being reprovided
}

func (m *c17bModel) apply(op, k int) {
	switch op {
	case c17bOnce:
		m.adv[k]++
	case c17bStart:
		if !m.kept[k] {
			m.adv[k]++
		}
		m.kept[k] = true
	case c17bForce:
		m.adv[k]++
		m.kept[k] = true
	case c17bStop:
		m.kept[k] = false
	}
}

func (m *c17bModel) keptSet() string {
	var l []string
	for k, v := range m.kept {
		if v {
			l = append(l, fmt.Sprintf("k%d", k))
		}
	}
	sort.Strings(l)
	return strings.Join(l, ",")
}

type c17bCfg struct {
	part     string
	depth    int
	batch    int
	restarts int
	ticks    int
	nkeys    int
}

func c17bConfigs(tier string) []vmc.Cfg {
	var out []vmc.Cfg
	d := 5
	if tier == "thorough" {
		d = 7
	}
	out = append(out, vmc.Cfg{Name: fmt.Sprintf("coalesce/len<=%d", d), Data: c17bCfg{part: "coalesce", depth: d}})
	wd := 3
	if tier == "thorough" {
		wd = 4
	}
	for _, b := range []int{1, 2, 1024} {
		out = append(out, vmc.Cfg{Name: fmt.Sprintf("wrapper/batch%d/ops<=%d", b, wd), Budget: 1000, Data: c17bCfg{part: "wrapper", depth: wd, batch: b, restarts: 2, ticks: 1, nkeys: 2}})
	}
	// one key, longer sequences: reaches histories in which queued work survives two restarts
	out = append(out, vmc.Cfg{Name: fmt.Sprintf("wrapper/batch2/one-key/ops<=%d", wd+2), Budget: 1000, Data: c17bCfg{part: "wrapper", depth: wd + 2, batch: 2, restarts: 2, ticks: 0, nkeys: 1}})
	return out
}

// C14 (buffered wrapper): Close while the worker is inside the wrapped provider, at every batch
// boundary of short operation sequences; the same driver as the C17 wrapper part.
func c14bConfigs(tier string) []vmc.Cfg {
	var out []vmc.Cfg
	d := 2
	if tier == "thorough" {
		d = 3
	}
	for _, b := range []int{1, 2, 1024} {
		out = append(out, vmc.Cfg{Name: fmt.Sprintf("buffered-close/batch%d/ops<=%d", b, d), Budget: 1000, Data: c17bCfg{part: "wrapper", depth: d, batch: b, restarts: 2, ticks: 1, nkeys: 2}})
	}
	return out
}

func TestVMC_C14buffered(t *testing.T) {
	vmc.Main(t, vmc.Harness{ID: "C14", Configs: c14bConfigs, Run: c17bRun, Bubble: true, ShardSubtree: true})
}

func TestVMC_C17buffered(t *testing.T) {
	vmc.Main(t, vmc.Harness{ID: "C17", Configs: c17bConfigs, Run: c17bRun, Bubble: true, ShardSubtree: true})
}

func c17bRun(x *vmc.X, cfg vmc.Cfg) {
	c := cfg.Data.(c17bCfg)
	keys := []mh.Multihash{kid.Mh("0001", 0), kid.Mh("1010", 0)}
	if c.part == "coalesce" {
		c17bCoalesce(x, c, keys)
		return
	}
	c17bWrapper(x, c, keys)
}

func c17bKeyIdx(keys []mh.Multihash, h mh.Multihash) int {
	for i, k := range keys {
		if string(k) == string(h) {
			return i
		}
	}
	return -1
}

// the order in which the worker executes the groups returned by getOperations
var c17bExecOrder = []int{int(forceStartProvidingOp), int(startProvidingOp), int(provideOnceOp), int(stopProvidingOp)}

func c17bWireOp(op int) byte {
	return []byte{provideOnceOp, startProvidingOp, forceStartProvidingOp, stopProvidingOp}[op]
}

func c17bFromWire(b int) int {
	switch byte(b) {
	case provideOnceOp:
		return c17bOnce
	case startProvidingOp:
		return c17bStart
	case forceStartProvidingOp:
		return c17bForce
	}
	return c17bStop
}

func c17bCoalesce(x *vmc.X, c c17bCfg, keys []mh.Multihash) {
	// the sequence is chosen by the explorer: one symbol per position, or stop
	var seq [][2]int
	for len(seq) < c.depth {
		i := x.Choose(9, vmc.Free, "sym")
		if i == 8 {
			break
		}
		seq = append(seq, [2]int{i / 2, i % 2})
	}
	ref := newC17bModel()
	var wire [][]byte
	var desc []string
	force := map[int]bool{}
	once := map[int]bool{}
	for _, s := range seq {
		ref.apply(s[0], s[1])
		wire = append(wire, toBytes(c17bWireOp(s[0]), keys[s[1]]))
		desc = append(desc, fmt.Sprintf("%s(k%d)", c17bOpNames[s[0]], s[1]))
		if s[0] == c17bForce {
			force[s[1]] = true
		}
		if s[0] == c17bOnce {
			once[s[1]] = true
		}
	}
	ops, err := getOperations(wire)
	if err != nil {
		x.Failf("C17/buffered/coalesce-error", "%v: %v", desc, err)
		return
	}
	if len(ops) != int(lastOp) {
		x.Failf("C17/buffered/coalesce-shape", "%v: %d groups", desc, len(ops))
		return
	}
	got := newC17bModel()
	for _, g := range c17bExecOrder {
		seenInGroup := map[int]bool{}
		for _, h := range ops[g] {
			k := c17bKeyIdx(keys, h)
			if k < 0 {
				x.Failf("C17/buffered/coalesce-foreign-key", "%v", desc)
				return
			}
			if g == int(stopProvidingOp) && seenInGroup[k] {
				x.Failf("C17/buffered/coalesce-duplicate-stop", "%v: k%d stopped twice", desc, k)
				return
			}
			seenInGroup[k] = true
			got.apply(c17bFromWire(g), k)
		}
	}
	if got.keptSet() != ref.keptSet() {
		x.Failf("C17/buffered/final-effect", "batch %v: kept keys after the coalesced batch {%s}, after applying the operations one by one {%s}", desc, got.keptSet(), ref.keptSet())
		return
	}
	for k := range keys {
		if (force[k] || once[k] || (ref.adv[k] > 0 && k != 0)) && got.adv[k] == 0 {
			x.Failf("C17/buffered/not-advertised", "batch %v: k%d is never handed to a providing call", desc, k)
			return
		}
		if ref.adv[k] == 0 && got.adv[k] > 0 {
			x.Failf("C17/buffered/spurious-advertise", "batch %v: k%d is advertised although one-by-one application never advertises it", desc, k)
			return
		}
	}
	x.Eval(len(seq) >= 2)
	x.Outcome("kept={%s}", got.keptSet())
}

// c17bQueueOrder inspects the persisted part of the dsqueue: entries sorted by datastore key are
// handed out in that order, so they must appear in the order in which they were queued. With
// exact (right after Close, when everything not yet handed to the provider is persisted) the
// persisted entries must be exactly the last operations queued, in order; otherwise they must
// embed, in order, into the queued sequence. counterReset tells that a later-queued entry
// carries a smaller dsqueue counter than an earlier-queued one.
func c17bQueueOrder(ds *jds.Store, enq [][]byte, exact bool) (bad string, counterReset bool) {
	type ent struct {
		counter string
		item    []byte
	}
	var p []ent
	for _, k := range ds.Keys() {
		parts := strings.Split(strings.TrimPrefix(k, "/"), "/")
		if len(parts) != 3 || !strings.HasPrefix(parts[0], "dsq-") {
			continue
		}
		item, err := base64.RawURLEncoding.DecodeString(parts[2])
		if err != nil {
			continue
		}
		p = append(p, ent{parts[1], item})
	}
	show := func() string {
		var l []string
		for _, e := range p {
			l = append(l, fmt.Sprintf("%s:%s", strings.TrimLeft(e.counter, "0")+"#", c17bOpNames[c17bFromWire(int(e.item[0]))]))
		}
		return strings.Join(l, " ")
	}
	if exact {
		if len(p) > len(enq) {
			return fmt.Sprintf("%d entries persisted, %d operations were queued", len(p), len(enq)), false
		}
		suffix := enq[len(enq)-len(p):]
		for i, e := range p {
			if string(suffix[i]) != string(e.item) {
				// same multiset in another order?
				cnt := map[string]int{}
				for _, w := range suffix {
					cnt[string(w)]++
				}
				for _, q := range p {
					cnt[string(q.item)]--
				}
				perm := true
				for _, v := range cnt {
					if v != 0 {
						perm = false
					}
				}
				// counters must be non-decreasing in queueing order; with a reset they are not
				return fmt.Sprintf("persisted queue in hand-out order is [%s]; entry %d differs from the queueing order of the last %d operations (same entries in another order: %v)", show(), i, len(p), perm), perm
			}
		}
		return "", false
	}
	j := 0
	for i, e := range p {
		for j < len(enq) && string(enq[j]) != string(e.item) {
			j++
		}
		if j == len(enq) {
			return fmt.Sprintf("persisted queue in hand-out order is [%s]; entry %d was queued before an entry that precedes it", show(), i), true
		}
		j++
	}
	return "", false
}

// ---- wrapper -----------------------------------------------------------------------------------

type c17bProv struct {
	s        *vmc.Sched
	keys     []mh.Multihash
	m        *c17bModel
	lastRank int
	first    bool // the call the worker is parked in is the first of its batch
	calls    []string
}

func (p *c17bProv) gate(rank int, name string, hs []mh.Multihash) {
	p.first = rank <= p.lastRank
	p.lastRank = rank
	p.s.Point(name)
	var ks []string
	for _, h := range hs {
		ks = append(ks, fmt.Sprintf("k%d", c17bKeyIdx(p.keys, h)))
	}
	p.calls = append(p.calls, name+"("+strings.Join(ks, ",")+")")
}

func (p *c17bProv) StartProviding(force bool, hs ...mh.Multihash) error {
	if force {
		p.gate(0, "force", hs)
	} else {
		p.gate(1, "start", hs)
	}
	for _, h := range hs {
		if force {
			p.m.apply(c17bForce, c17bKeyIdx(p.keys, h))
		} else {
			p.m.apply(c17bStart, c17bKeyIdx(p.keys, h))
		}
	}
	return nil
}

func (p *c17bProv) ProvideOnce(hs ...mh.Multihash) error {
	p.gate(2, "once", hs)
	for _, h := range hs {
		p.m.apply(c17bOnce, c17bKeyIdx(p.keys, h))
	}
	return nil
}

func (p *c17bProv) StopProviding(hs ...mh.Multihash) error {
	p.gate(3, "stop", hs)
	for _, h := range hs {
		p.m.apply(c17bStop, c17bKeyIdx(p.keys, h))
	}
	return nil
}
func (p *c17bProv) Clear() int             { return 0 }
func (p *c17bProv) RefreshSchedule() error { return nil }
func (p *c17bProv) Close() error           { return nil }

func c17bWrapper(x *vmc.X, c c17bCfg, keys []mh.Multihash) {
	s := vmc.NewSched(x)
	defer s.Finish()
	ds := jds.New()
	fp := &c17bProv{s: s, keys: keys, m: newC17bModel(), lastRank: 99}
	ref := newC17bModel()
	w := New(fp, ds, WithBatchSize(c.batch))
	defer func() {
		s.Finish()
		w.Close()
	}()
	synctest.Wait()
	var desc []string
	force := map[int]bool{}
	once := map[int]bool{}
	nOps, nRestarts, nTicks := 0, 0, 0
	failed := false
	var enq [][]byte
	checkOrder := func(exact bool) bool {
		bad, reset := c17bQueueOrder(ds, enq, exact)
		if bad == "" {
			return true
		}
		if reset && nRestarts > 0 {
			x.Failf("C17/buffered/persisted-queue-reordered-after-restart", "%v (batch size %d): %s: operations queued after a restart are handed to the provider before older ones that were still persisted", desc, c.batch, bad)
		} else {
			x.Failf("C17/buffered/persisted-queue-out-of-order", "%v (batch size %d): %s", desc, c.batch, bad)
		}
		failed = true
		return false
	}
	for !failed {
		synctest.Wait()
		if !checkOrder(false) {
			return
		}
		parked := s.Parked()
		var actions []vmc.Action
		{
			if nOps < c.depth {
				for op := 0; op < 4; op++ {
					for k := 0; k < c.nkeys; k++ {
						op, k := op, k
						actions = append(actions, vmc.Action{Label: fmt.Sprintf("%s(k%d)", c17bOpNames[op], k), Do: func() {
							nOps++
							var err error
							switch op {
							case c17bOnce:
								err = w.ProvideOnce(keys[k])
							case c17bStart:
								err = w.StartProviding(false, keys[k])
							case c17bForce:
								err = w.StartProviding(true, keys[k])
							case c17bStop:
								err = w.StopProviding(keys[k])
							}
							if err != nil {
								x.Failf("C17/buffered/enqueue-error", "%v then %s(k%d): %v", desc, c17bOpNames[op], k, err)
								failed = true
								return
							}
							desc = append(desc, fmt.Sprintf("%s(k%d)", c17bOpNames[op], k))
							enq = append(enq, toBytes(c17bWireOp(op), keys[k]))
							ref.apply(op, k)
							if op == c17bForce {
								force[k] = true
							}
							if op == c17bOnce {
								once[k] = true
							}
						}})
					}
				}
			}
			if nRestarts < c.restarts && nOps > 0 {
				actions = append(actions, vmc.Action{Label: "restart", Do: func() {
					nRestarts++
					desc = append(desc, "restart")
					name := fmt.Sprintf("closer%d", nRestarts)
					var cerr error
					old := w
					s.GoNow(name, func() { cerr = old.Close() })
					for i := 0; !s.Done(name); i++ {
						synctest.Wait()
						if s.Done(name) {
							break
						}
						if !s.Step(nil) || i > 50 {
							x.Failf("C17/buffered/close-hangs", "%v: Close does not return (parked: %v)", desc, s.Parked())
							failed = true
							return
						}
					}
					if left := s.ParkedOthers(); len(left) > 0 {
						x.Failf("C14/buffered/close-returned-early", "%v: Close returned while the wrapper's worker is still inside %v", desc, left)
						failed = true
						return
					}
					if cerr != nil {
						x.Failf("C17/buffered/close-error", "%v: %v", desc, cerr)
						failed = true
						return
					}
					if err := old.Close(); err != nil {
						x.Failf("C17/buffered/close-twice", "%v: %v", desc, err)
						failed = true
						return
					}
					if !checkOrder(true) {
						return
					}
					fp.lastRank = 99
					w = New(fp, ds, WithBatchSize(c.batch))
				}})
			}
			if nTicks < c.ticks && nOps > 0 {
				actions = append(actions, vmc.Action{Label: "idle(3m)", Do: func() {
					nTicks++
					desc = append(desc, "idle3m")
					time.Sleep(3 * time.Minute)
				}})
			}
		}
		if len(parked) == 0 && (len(actions) == 0) {
			break
		}
		// stopping early is the last alternative
		if len(parked) == 0 {
			stop := false
			actions = append(actions, vmc.Action{Label: "end", Do: func() { stop = true }})
			s.Step(actions)
			if stop {
				break
			}
			continue
		}
		s.Step(actions)
	}
	if failed {
		return
	}
	// drain: let the worker finish
	for i := 0; ; i++ {
		synctest.Wait()
		if len(s.Parked()) == 0 {
			break
		}
		if i > 100 {
			x.Failf("C17/buffered/no-progress", "%v", desc)
			return
		}
		s.Step(nil)
	}
	if !checkOrder(false) {
		return
	}
	if fp.m.keptSet() != ref.keptSet() {
		x.Failf("C17/buffered/final-effect", "%v (batch size %d): kept keys through the wrapper {%s}, one by one {%s}; provider calls %v", desc, c.batch, fp.m.keptSet(), ref.keptSet(), fp.calls)
		return
	}
	for k := range keys {
		if (force[k] || once[k] || (ref.adv[k] > 0 && k != 0)) && fp.m.adv[k] == 0 {
			x.Failf("C17/buffered/not-advertised", "%v (batch size %d): k%d is never handed to a providing call; provider calls %v", desc, c.batch, k, fp.calls)
			return
		}
	}
	x.Eval(nOps >= 2)
	x.Outcome("kept={%s} calls=%d", fp.m.keptSet(), len(fp.calls))
}
