//go:build verif

package dual

import (
	"errors"
	"fmt"
	"strings"
	"testing"
	"testing/synctest"
	"time"

	"github.com/libp2p/go-libp2p/core/host"
	"github.com/libp2p/go-libp2p/core/protocol"
	ma "github.com/multiformats/go-multiaddr"

	dht "github.com/libp2p/go-libp2p-kad-dht"
	ddht "github.com/libp2p/go-libp2p-kad-dht/dual"
	"github.com/libp2p/go-libp2p-kad-dht/internal/vmc"
	"github.com/libp2p/go-libp2p-kad-dht/internal/vmc/jds"
	"github.com/libp2p/go-libp2p-kad-dht/internal/vmc/kid"
	"github.com/libp2p/go-libp2p-kad-dht/internal/vmc/sim"
	pb "github.com/libp2p/go-libp2p-kad-dht/pb"
	"github.com/libp2p/go-libp2p-kad-dht/provider/keystore"
)

// C14 (dual sweeping provider, a wrapper around two sweeping providers that share one keystore):
// the constructor and Close with a datastore error injected at every datastore call they make,
// on the LAN provider's store, the WAN provider's store, or both (one store shared).
// Oracle: whatever New / Close return, afterwards no goroutine is running that was not running
// before New (the keystore worker the wrapper created itself and both providers' loops included);
// New returns no handle together with an error; a second Close is harmless.

type c14pdcfg struct {
	phase  string // "clean", "ctor", "close"
	target string // which store fails: lan | wan | shared
	failAt int    // index of the failing datastore call within the phase
	owned  bool   // the wrapper creates the keystore itself (no WithKeystore)
}

func c14pdConfigs(tier string) []vmc.Cfg {
	var out []vmc.Cfg
	for _, owned := range []bool{true, false} {
		out = append(out, vmc.Cfg{Name: fmt.Sprintf("provider-dual/clean/owned-keystore=%v", owned), Data: c14pdcfg{phase: "clean", owned: owned}})
		for _, phase := range []string{"ctor", "close"} {
			for _, target := range []string{"lan", "wan", "shared"} {
				n := 6
				if tier == "thorough" {
					n = 16
				}
				for i := 0; i < n; i++ {
					out = append(out, vmc.Cfg{Name: fmt.Sprintf("provider-dual/%s-fault/%s/call%d/owned-keystore=%v", phase, target, i, owned), Data: c14pdcfg{phase, target, i, owned}})
				}
			}
		}
	}
	return out
}

func TestVMC_C14providerdual(t *testing.T) {
	vmc.Main(t, vmc.Harness{ID: "C14", Configs: c14pdConfigs, Run: c14pdRun, Bubble: true})
}

func c14pdGoroutines() map[string]int {
	m := map[string]int{}
	for _, g := range vmc.LeakedGoroutines() {
		if strings.Contains(g, "synctest.") {
			continue
		}
		m[g]++
	}
	return m
}

func c14pdRun(x *vmc.X, cfg vmc.Cfg) {
	c := cfg.Data.(c14pdcfg)
	self := kid.Peer("0110", 8)
	w := sim.NewWorld(self, 3)
	net := sim.NewNet(w)
	h := sim.NewHost(self, ma.StringCast("/ip4/8.8.4.4/tcp/4001"), ma.StringCast("/ip4/10.9.9.9/tcp/4001"))
	h.DialFn = net.Dial
	d, err := ddht.New(h, ddht.WanDHTOption(dht.ProtocolPrefix("/sim")), ddht.LanDHTOption(dht.ProtocolPrefix("/sim"), dht.ProtocolExtension(ddht.LanExtension)),
		ddht.DHTOption(dht.BucketSize(3), dht.DisableAutoRefresh(), dht.Validator(sim.Validator()),
			dht.WithCustomMessageSender(func(_ host.Host, protos []protocol.ID) pb.MessageSenderWithDisconnect {
				return net.Sender(string(protos[0]))
			})))
	if err != nil {
		x.Failf("C14/setup", "%v", err)
		h.Close()
		return
	}
	defer func() {
		d.Close()
		h.Close()
		synctest.Wait()
	}()
	synctest.Wait()

	// the stores of the two providers; calls are counted per phase and the chosen one fails
	phase := "ctor"
	calls := map[string]int{}
	mk := func(name string) *jds.Store {
		s := jds.New()
		s.Hook = func(op, key string) error {
			if c.phase != phase || (c.target != name) {
				return nil
			}
			calls[name]++
			if calls[name]-1 == c.failAt {
				return jds.ErrInjected
			}
			return nil
		}
		return s
	}
	var opts []Option
	if c.target == "shared" {
		opts = append(opts, WithDatastore(mk("shared")))
	} else {
		opts = append(opts, WithDatastoreLAN(mk("lan")), WithDatastoreWAN(mk("wan")))
	}
	var own interface{ Close() error }
	if !c.owned {
		ks, err := newOwnKeystore()
		if err != nil {
			x.Failf("C14/setup", "%v", err)
			return
		}
		own = ks
		opts = append(opts, WithKeystore(ks))
		defer own.Close()
	}
	synctest.Wait()
	before := c14pdGoroutines()
	extra := func() []string {
		var out []string
		for g, n := range c14pdGoroutines() {
			if n > before[g] {
				out = append(out, fmt.Sprintf("%s x%d", g, n-before[g]))
			}
		}
		return out
	}
	p, err := New(d, opts...)
	synctest.Wait()
	injectedInCtor := c.phase == "ctor" && calls[c.target] > c.failAt
	if err != nil {
		if p != nil {
			x.Failf("C14/provider-dual/ctor-handle-with-error", "New returned a provider together with the error %v", err)
			return
		}
		if !injectedInCtor {
			x.Failf("C14/provider-dual/ctor-error", "New failed without an injected error: %v", err)
			return
		}
		time.Sleep(time.Minute)
		synctest.Wait()
		if left := extra(); len(left) > 0 {
			x.Failf("C14/provider-dual/ctor-leak", "New failed (%v; %s store, datastore call %d) and left %d goroutine(s) running: %v", err, c.target, c.failAt, len(left), left)
			return
		}
		x.Eval(true)
		x.Outcome("ctor error")
		return
	}
	// constructed (a datastore error during construction may be tolerated): let it settle, then Close
	time.Sleep(time.Second)
	synctest.Wait()
	phase = "close"
	closeRet := make(chan error, 1)
	go func() { closeRet <- p.Close() }()
	synctest.Wait()
	var closeErr error
	select {
	case closeErr = <-closeRet:
	default:
		time.Sleep(2 * time.Minute)
		synctest.Wait()
		select {
		case closeErr = <-closeRet:
		default:
			x.Failf("C14/provider-dual/close-hangs", "Close has not returned after 2 virtual minutes (%s fault at call %d of %s); goroutines %v", c.phase, c.failAt, c.target, extra())
			return
		}
	}
	injectedInClose := c.phase == "close" && calls[c.target] > c.failAt
	if closeErr != nil && !injectedInClose && !errors.Is(closeErr, jds.ErrInjected) {
		x.Failf("C14/provider-dual/close-error", "Close: %v", closeErr)
		return
	}
	time.Sleep(time.Minute)
	synctest.Wait()
	if left := extra(); len(left) > 0 {
		x.Failf("C14/provider-dual/close-leak", "Close returned (%v; %s fault at datastore call %d of the %s store, owned keystore %v) and %d goroutine(s) it should have stopped are still running: %v", closeErr, c.phase, c.failAt, c.target, c.owned, len(left), left)
		return
	}
	second := make(chan error, 1)
	go func() { second <- p.Close() }()
	synctest.Wait()
	select {
	case <-second:
	default:
		x.Failf("C14/provider-dual/second-close-hangs", "a second Close does not return")
		return
	}
	x.Eval(injectedInCtor || injectedInClose)
	x.Outcome("closed err=%v injected=%v", closeErr != nil, injectedInCtor || injectedInClose)
}

func newOwnKeystore() (keystore.Keystore, error) { return keystore.NewKeystore(jds.New()) }
