//go:build verif

package provider

import (
	"context"
	"os"
	"runtime/debug"
	"errors"
	"fmt"
	"sort"
	"strings"
	gosync "sync"
	"testing"
	"testing/synctest"
	"time"

	"github.com/libp2p/go-libp2p-kad-dht/provider/internal/keyspace"
	"github.com/libp2p/go-libp2p/core/peer"
	ma "github.com/multiformats/go-multiaddr"
	mh "github.com/multiformats/go-multihash"

	"github.com/libp2p/go-libp2p-kad-dht/internal/vmc"
	"github.com/libp2p/go-libp2p-kad-dht/internal/vmc/jds"
	"github.com/libp2p/go-libp2p-kad-dht/internal/vmc/kid"
	"github.com/libp2p/go-libp2p-kad-dht/internal/vmc/sim"
	"github.com/libp2p/go-libp2p-kad-dht/internal/vmc/vrand"
	pb "github.com/libp2p/go-libp2p-kad-dht/pb"
	"github.com/libp2p/go-libp2p-kad-dht/provider/keystore"
)

// C17: the sweeping provider advertises every key to its closest peers, on schedule. The router
// answers instantly from the current swarm; the nondeterminism explored is the *program*:
// every sequence of operations / churn / outages / clock advances / restarts up to a depth.

const (
	c17I = 100 * time.Minute // reprovide interval
	c17D = 10 * time.Minute  // max reprovide delay
)

type c17cfg struct {
	swarm   int // initial swarm size
	r       int
	workers string // "1", "2+dedicated"
	depth   int
	seed    uint64 // of the keys the provider draws for its prefix-length measurement
	prelude string // "" | "split": start(k0,k1,k4,k5); swarm+=2; clock+I | "restarted": start(k0,k1,k4,k5); clock+I/4; restart - before the explored program (deeper histories)
}

func c17Configs(tier string) []vmc.Cfg {
	var out []vmc.Cfg
	depth := 3
	if tier == "thorough" {
		depth = 4
	}
	for _, sw := range []int{3, 6, 12} {
		for _, r := range []int{2, 3} {
			for _, wk := range []string{"1", "2+dedicated"} {
				if tier != "thorough" && wk == "1" && sw != 6 {
					continue
				}
				seeds := []uint64{1, 2}
				if tier == "thorough" {
					seeds = []uint64{1, 2, 3}
				}
				for _, seed := range seeds {
					out = append(out, vmc.Cfg{Name: fmt.Sprintf("program/swarm%d/r%d/workers-%s/depth%d/seed%d", sw, r, wk, depth, seed), Data: c17cfg{sw, r, wk, depth, seed, ""}})
				}
				if sw == 6 && wk != "1" {
					// after this prelude the swarm has grown so that a scheduled region splits into a part with keys and a part without
					out = append(out, vmc.Cfg{Name: fmt.Sprintf("program/swarm%d/r%d/workers-%s/prelude-split/depth%d/seed1", sw, r, wk, depth), Data: c17cfg{sw, r, wk, depth, 1, "split"}})
					if r == 2 {
						out = append(out, vmc.Cfg{Name: fmt.Sprintf("program/swarm%d/r%d/workers-%s/prelude-restarted/depth%d/seed1", sw, r, wk, depth), Data: c17cfg{sw, r, wk, depth, 1, "restarted"}})
					}
				}
			}
		}
	}
	return out
}

func TestVMC_C17(t *testing.T) {
	vmc.Main(t, vmc.Harness{ID: "C17", Configs: c17Configs, Run: c17Run, Bubble: true, ShardSubtree: true})
}

type c17send struct {
	t     time.Duration
	key   int
	to    peer.ID
	addrs string
}

type c17env struct {
	mu      gosync.Mutex
	t0      time.Time
	swarm   map[peer.ID]bool
	offline bool
	bk      int
	keys    []mh.Multihash
	sends   []c17send
	addrs   []ma.Multiaddr
	swarmAt []swarmSnap
	calls   []string
	// busy-loop detection
	spinAt   time.Duration
	spinN    int
	spinning bool
	spinWhat string
}

type swarmSnap struct {
	t     time.Duration
	peers []peer.ID
}

func (e *c17env) now() time.Duration { return time.Since(e.t0) }

func (e *c17env) GetClosestPeers(ctx context.Context, key string) ([]peer.ID, error) {
	e.mu.Lock()
	defer e.mu.Unlock()
	e.spin("GetClosestPeers")
	if e.spinning {
		// break the loop so that the execution can end and report it: block until the context ends
		e.mu.Unlock()
		<-ctx.Done()
		e.mu.Lock()
		return nil, ctx.Err()
	}
	if e.offline {
		// a failing lookup takes one virtual second: the provider retries a failed provide at once for as long
		// as its connectivity checker is throttled (TriggerCheck is ignored within the online-check interval of
		// the last check), and with failures that take no time at all virtual time could never advance
		e.mu.Unlock()
		time.Sleep(time.Second)
		e.mu.Lock()
		return nil, errors.New("sim: offline")
	}
	var ids []peer.ID
	for p := range e.swarm {
		ids = append(ids, p)
	}
	sort.Slice(ids, func(i, j int) bool { return ids[i] < ids[j] })
	ids = sim.SortByDistance(ids, key)
	if len(ids) > e.bk {
		ids = ids[:e.bk]
	}
	var got []string
	for _, p := range ids {
		got = append(got, kid.BitsOf([]byte(p), 4))
	}
	e.calls = append(e.calls, fmt.Sprintf("%v:%s->%v", e.now(), kid.BitsOf([]byte(key), 6), got))
	return ids, nil
}

// spin detects a busy loop: virtual time cannot advance while a goroutine keeps calling the
// router, so a large number of calls at one virtual instant means the provider is spinning.
func (e *c17env) spin(what string) {
	t := e.now()
	if t != e.spinAt {
		e.spinAt, e.spinN = t, 0
	}
	e.spinN++
	if e.spinN > 20000 && !e.spinning {
		e.spinning = true
		e.spinWhat = fmt.Sprintf("%d %s calls at virtual time %v without any time passing", e.spinN, what, t)
		if os.Getenv("VMC_SPIN_STACK") == "1" {
			e.spinWhat += "\n" + string(debug.Stack())
		}
	}
}

func (e *c17env) SendRequest(ctx context.Context, p peer.ID, m *pb.Message) (*pb.Message, error) {
	return nil, errors.New("unexpected SendRequest")
}

func (e *c17env) SendMessage(ctx context.Context, p peer.ID, m *pb.Message) error {
	e.mu.Lock()
	defer e.mu.Unlock()
	if e.offline {
		return errors.New("sim: offline")
	}
	ki := -1
	for i, k := range e.keys {
		if string(k) == string(m.GetKey()) {
			ki = i
		}
	}
	var as []string
	for _, pp := range m.GetProviderPeers() {
		for _, a := range pp.Addresses() {
			as = append(as, a.String())
		}
	}
	e.sends = append(e.sends, c17send{e.now(), ki, p, strings.Join(as, ",")})
	return nil
}

func (e *c17env) snapshot() {
	var ids []peer.ID
	for p := range e.swarm {
		ids = append(ids, p)
	}
	sort.Slice(ids, func(i, j int) bool { return ids[i] < ids[j] })
	e.swarmAt = append(e.swarmAt, swarmSnap{e.now(), ids})
}

func (e *c17env) swarmAtTime(t time.Duration) []peer.ID {
	var cur []peer.ID
	for _, s := range e.swarmAt {
		if s.t <= t {
			cur = s.peers
		}
	}
	return cur
}

func (e *c17env) nearest(t time.Duration, key int, r int) []peer.ID {
	ids := sim.SortByDistance(e.swarmAtTime(t), string(e.keys[key]))
	if len(ids) > r {
		ids = ids[:r]
	}
	return ids
}

func c17Run(x *vmc.X, cfg vmc.Cfg) {
	c := cfg.Data.(c17cfg)
	vrand.Hook = vrand.Seeded(c.seed) // the keys of the prefix-length measurement: the same in every execution and replay
	defer func() { vrand.Hook = nil }()
	self := kid.Peer("0110", 9)
	e := &c17env{t0: time.Now(), swarm: map[peer.ID]bool{}, bk: c.r, addrs: []ma.Multiaddr{ma.StringCast("/ip4/8.8.8.8/tcp/4001")}}
	cells := []string{"0000", "1000", "0100", "1100", "0010", "1010", "0110", "1110", "0001", "1001", "0101", "1101", "0011", "1011"}
	pool := make([]peer.ID, len(cells))
	for i, cell := range cells {
		pool[i] = kid.Peer(cell, 9)
	}
	for i := 0; i < c.swarm; i++ {
		e.swarm[pool[i]] = true
	}
	e.snapshot()
	// keys: two in the same region, one elsewhere, one more
	e.keys = []mh.Multihash{kid.Mh("0001", 0), kid.Mh("0001", 1), kid.Mh("1010", 0), kid.Mh("0111", 0), kid.Mh("0001", 2), kid.Mh("0000", 0), kid.Mh("0110", 0), kid.Mh("0101", 0)}
	store := jds.New()
	ks, err := keystore.NewKeystore(jds.New())
	if err != nil {
		x.Failf("C17/setup", "%v", err)
		return
	}
	defer ks.Close()
	mkProv := func(resume bool) (*SweepingProvider, error) {
		opts := []Option{
			WithPeerID(self), WithRouter(e), WithMessageSender(e), WithSelfAddrs(func() []ma.Multiaddr { return e.addrs }),
			WithReplicationFactor(c.r), WithReprovideInterval(c17I), WithMaxReprovideDelay(c17D),
			WithOfflineDelay(5 * time.Minute), WithConnectivityCheckOnlineInterval(30 * time.Second),
			WithDatastore(store), WithKeystore(ks), WithResumeCycle(resume),
		}
		if c.workers == "1" {
			opts = append(opts, WithMaxWorkers(1), WithDedicatedBurstWorkers(0), WithDedicatedPeriodicWorkers(0))
		} else {
			opts = append(opts, WithMaxWorkers(4), WithDedicatedBurstWorkers(1), WithDedicatedPeriodicWorkers(1))
		}
		return New(opts...)
	}
	prov, err := mkProv(false)
	if err != nil {
		x.Failf("C17/setup", "%v", err)
		return
	}
	defer func() { prov.Close() }()
	synctest.Wait()
	time.Sleep(time.Minute)
	synctest.Wait()
	if !prov.connectivity.IsOnline() {
		x.Failf("C17/setup", "provider did not come online")
		return
	}

	type opRec struct {
		name  string
		t     time.Duration
		key   int
		sched map[int]string // the schedule prefix of every key when the operation began
	}
	var hist []opRec
	kept := map[int]bool{}
	stoppedAt := map[int]time.Duration{}
	lastProvideOp := map[int]time.Duration{}
	// the schedule prefix that covers each key, read from the provider (in-package)
	schedPrefixes := func() map[int]string {
		out := map[int]string{}
		prov.scheduleLk.Lock()
		defer prov.scheduleLk.Unlock()
		for i, k := range e.keys {
			if p, ok := keyspace.FindPrefixOfKey(prov.schedule, keyspace.MhToBit256(k)); ok {
				out[i] = "/" + string(p)
			}
		}
		return out
	}
	type c17restart struct {
		t      time.Duration
		before map[int]string
	}
	var restarts []c17restart
	var outages [][2]time.Duration
	outageStart := time.Duration(-1)
	nextPeer := c.swarm
	type op struct {
		name string
		run  func() bool
	}
	wantImmediate := func(k int, what string) bool {
		// while online: sent to all r nearest within a minute of virtual time
		t := e.now()
		time.Sleep(time.Minute)
		synctest.Wait()
		want := e.nearest(t, k, c.r)
		got := map[peer.ID]bool{}
		e.mu.Lock()
		for _, s := range e.sends {
			if s.key == k && s.t >= t {
				got[s.to] = true
			}
		}
		e.mu.Unlock()
		for _, p := range want {
			if !got[p] {
				x.Failf("C17/not-provided-immediately", "%s(k%d) while online at %v: after one minute %d of its %d nearest peers have no ADD_PROVIDER (swarm %d)", what, k, t, len(want)-len(got), len(want), len(e.swarmAtTime(t)))
				return false
			}
		}
		return true
	}
	online := func() bool { return outageStart < 0 && prov.connectivity.IsOnline() }
	startOp := func(k int) op {
		return op{fmt.Sprintf("start(k%d)", k), func() bool {
			wasOnline := online()
			if err := prov.StartProviding(false, e.keys[k]); err != nil {
				x.Obs("start error")
				return true
			}
			already := kept[k]
			kept[k] = true
			delete(stoppedAt, k)
			lastProvideOp[k] = e.now()
			if wasOnline && !already {
				return wantImmediate(k, "StartProviding")
			}
			return true
		}}
	}
	stopOp := func(k int) op {
		return op{fmt.Sprintf("stop(k%d)", k), func() bool {
			if err := prov.StopProviding(e.keys[k]); err != nil {
				x.Failf("C17/stop-error", "%v", err)
				return false
			}
			kept[k] = false
			stoppedAt[k] = e.now()
			return true
		}}
	}
	groupOp := op{"start(k0,k1,k4,k5)", func() bool {
		// four keys of one region in a single call (regions with more than two keys are reprovided in batches)
		if err := prov.StartProviding(false, e.keys[0], e.keys[1], e.keys[4], e.keys[5]); err != nil {
			return true
		}
		for _, k := range []int{0, 1, 4, 5} {
			kept[k] = true
			delete(stoppedAt, k)
			lastProvideOp[k] = e.now()
		}
		return true
	}}
	group2Op := op{"start(k3,k6,k7)", func() bool {
		// three keys of the sibling region 01 (more than the individual-provide threshold)
		if err := prov.StartProviding(false, e.keys[3], e.keys[6], e.keys[7]); err != nil {
			return true
		}
		for _, k := range []int{3, 6, 7} {
			kept[k] = true
			delete(stoppedAt, k)
			lastProvideOp[k] = e.now()
		}
		return true
	}}
	ops := []op{
		startOp(0), startOp(1), startOp(2), startOp(3), groupOp, group2Op,
		stopOp(0), stopOp(1),
		{"once(k3)", func() bool {
			wasOnline := online()
			if err := prov.ProvideOnce(e.keys[3]); err != nil {
				return true
			}
			lastProvideOp[3] = e.now()
			if wasOnline {
				return wantImmediate(3, "ProvideOnce")
			}
			return true
		}},
		{"swarm+=2", func() bool {
			e.mu.Lock()
			for i := 0; i < 2 && nextPeer < len(pool); i++ {
				e.swarm[pool[nextPeer]] = true
				nextPeer++
			}
			e.snapshot()
			e.mu.Unlock()
			return true
		}},
		{"swarm-=half", func() bool {
			e.mu.Lock()
			ids := e.swarmAtTime(e.now())
			for i, p := range ids {
				if i%2 == 1 && len(e.swarm) > 1 {
					delete(e.swarm, p)
				}
			}
			e.snapshot()
			e.mu.Unlock()
			return true
		}},
		{"offline", func() bool {
			e.mu.Lock()
			e.offline = true
			e.mu.Unlock()
			if outageStart < 0 {
				outageStart = e.now()
			}
			return true
		}},
		{"online", func() bool {
			e.mu.Lock()
			e.offline = false
			e.mu.Unlock()
			if outageStart >= 0 {
				outages = append(outages, [2]time.Duration{outageStart, e.now()})
				outageStart = -1
			}
			return true
		}},
		{"clock+I/4", func() bool { time.Sleep(c17I / 4); synctest.Wait(); return true }},
		{"clock+I", func() bool { time.Sleep(c17I); synctest.Wait(); return true }},
		{"restart", func() bool {
			restarts = append(restarts, c17restart{t: e.now(), before: schedPrefixes()})
			if err := prov.Close(); err != nil {
				x.Failf("C17/close-error", "%v", err)
				return false
			}
			if err := prov.Close(); err != nil {
				x.Failf("C17/close-twice", "%v", err)
				return false
			}
			prov, err = mkProv(true)
			if err != nil {
				x.Failf("C17/restart", "%v", err)
				return false
			}
			synctest.Wait()
			return true
		}},
	}
	if c.prelude != "" {
		names := []string{"start(k0,k1,k4,k5)", "swarm+=2", "clock+I"}
		if c.prelude == "restarted" {
			// a first restart a quarter of an interval into the cycle: the explored program can then restart a second time
			names = []string{"start(k0,k1,k4,k5)", "clock+I/4", "restart"}
		}
		for _, name := range names {
			for _, o := range ops {
				if o.name == name {
					time.Sleep(time.Second)
					synctest.Wait()
					x.Obs("%s", o.name)
					hist = append(hist, opRec{name: o.name, t: e.now(), sched: schedPrefixes()})
					if !o.run() {
						return
					}
					synctest.Wait()
				}
			}
		}
	}
	for d := 0; d < c.depth; d++ {
		i := x.Choose(len(ops)+1, vmc.Free, "op")
		if i == len(ops) {
			break
		}
		time.Sleep(time.Second) // operations happen at distinct virtual instants
		synctest.Wait()
		x.Obs("%s", ops[i].name)
		hist = append(hist, opRec{name: ops[i].name, t: e.now(), sched: schedPrefixes()})
		if !ops[i].run() {
			return
		}
		synctest.Wait()
		e.mu.Lock()
		spinning, what := e.spinning, e.spinWhat
		e.mu.Unlock()
		if spinning {
			var hs []string
			for _, h := range hist {
				hs = append(hs, h.name)
			}
			x.Failf("C17/busy-loop", "[%s] the provider spins: %s; last router calls: %v", strings.Join(hs, ";"), what, e.calls[max(0, len(e.calls)-6):])
			return
		}
	}
	// final phase: online, static swarm, three more intervals
	e.mu.Lock()
	e.offline = false
	e.mu.Unlock()
	if outageStart >= 0 {
		outages = append(outages, [2]time.Duration{outageStart, e.now()})
		outageStart = -1
	}
	settle := e.now()
	time.Sleep(10 * time.Minute) // connectivity checks notice that the node is online again
	synctest.Wait()
	phaseStart := e.now()
	time.Sleep(3*c17I + c17D)
	synctest.Wait()
	end := e.now()
	var hs []string
	for _, h := range hist {
		hs = append(hs, h.name)
	}
	desc := strings.Join(hs, ";")

	e.mu.Lock()
	sends := append([]c17send(nil), e.sends...)
	e.mu.Unlock()
	// D/E: recipients and payload
	wantAddrs := e.addrs[0].String()
	for _, s := range sends {
		if s.key < 0 {
			x.Failf("C17/foreign-key", "[%s] an ADD_PROVIDER for an unknown key was sent", desc)
			return
		}
		near := e.nearest(s.t, s.key, c.r)
		ok := false
		for _, p := range near {
			if p == s.to {
				ok = true
			}
		}
		if !ok {
			var nn []string
			for _, p := range near {
				nn = append(nn, kid.BitsOf([]byte(p), 4))
			}
			var all []string
			for _, p := range e.swarmAtTime(s.t) {
				all = append(all, kid.BitsOf([]byte(p), 4))
			}
			sort.Strings(all)
			x.Failf("C17/wrong-recipient", "[%s] at %v k%d (%s) was advertised to peer %s which is not among its %d nearest %v in the swarm %v; sends of this key: %v; router calls: %v", desc, s.t, s.key, kid.BitsOf(e.keys[s.key], 4), kid.BitsOf([]byte(s.to), 4), c.r, nn, all, func() []string {
				var o []string
				for _, q := range sends {
					if q.key == s.key {
						o = append(o, fmt.Sprintf("%v->%s", q.t, kid.BitsOf([]byte(q.to), 4)))
					}
				}
				return o
			}(), e.calls[max(0, len(e.calls)-12):])
			return
		}
		if s.addrs != wantAddrs {
			x.Failf("C17/payload", "[%s] ADD_PROVIDER carries addresses %q, self addresses are %q", desc, s.addrs, wantAddrs)
			return
		}
	}
	// C: stopped keys are not advertised after the stop
	// (StopProviding removes the key from the provide queue and the keystore, but a first provide that is
	// in flight at that moment - a lookup that is failing while the node is cut off - puts the key back into
	// the queue when it fails, and the key is then advertised once when connectivity returns. That is the
	// pending initial provide, not a re-advertisement in a later cycle: one advertisement round after the
	// stop is tolerated if a provide was pending, a second one never.)
	for k, st := range stoppedAt {
		rounds := map[time.Duration]bool{}
		for _, s := range sends {
			if s.key == k && s.t > st {
				rounds[s.t] = true
			}
		}
		pending := false
		if op, ok := lastProvideOp[k]; ok && op < st {
			pending = true
			for _, s := range sends {
				if s.key == k && s.t >= op && s.t <= st {
					pending = false // the provide requested before the stop had already gone out
				}
			}
		}
		if len(rounds) > 1 || (len(rounds) == 1 && !pending) {
			var ts []time.Duration
			for t := range rounds {
				ts = append(ts, t)
			}
			sort.Slice(ts, func(i, j int) bool { return ts[i] < ts[j] })
			x.Failf("C17/stopped-key-advertised", "[%s] k%d was stopped at %v and advertised again at %v (a provide was pending at the stop: %v)", desc, k, st, ts, pending)
			return
		}
	}
	// B: every kept key is fully re-advertised at least once per I+D in the final (online, static) phase
	for k, isKept := range kept {
		if !isKept {
			continue
		}
		// times of full advertisements: all r nearest (at that time) received it at the same virtual instant
		byTime := map[time.Duration]map[peer.ID]bool{}
		for _, s := range sends {
			if s.key == k {
				if byTime[s.t] == nil {
					byTime[s.t] = map[peer.ID]bool{}
				}
				byTime[s.t][s.to] = true
			}
		}
		var full []time.Duration
		for t, got := range byTime {
			okAll := true
			for _, p := range e.nearest(t, k, c.r) {
				if !got[p] {
					okAll = false
				}
			}
			if okAll {
				full = append(full, t)
			}
		}
		sort.Slice(full, func(i, j int) bool { return full[i] < full[j] })
		last := time.Duration(-1)
		for _, t := range full {
			if t <= phaseStart {
				last = t
			}
		}
		prev := phaseStart
		if last >= 0 && last > prev-c17I {
			prev = last
		}
		for _, t := range full {
			if t <= prev {
				continue
			}
			if t-prev > c17I+c17D {
				var all []string
				for _, q := range sends {
					if q.key == k {
						all = append(all, fmt.Sprintf("%v->%s", q.t, kid.BitsOf([]byte(q.to), 4)))
					}
				}
				// a gap that spans a restart after which the key's region is scheduled under another prefix (the
				// prefix-length estimate of the new process differs) has its own signature: known finding D20
				sig, note := "C17/reprovide-gap", ""
				after := schedPrefixes()
				// known finding D24: the key's region was split between the two advertisements (its schedule prefix at the
				// last operation that began before the first one is a proper prefix of the one it has now) while the swarm
				// had grown, and no restart lies inside the gap
				var was string
				known := false
				grown := false
				for _, h := range hist {
					if h.t <= prev {
						if p, ok := h.sched[k]; ok {
							was, known = p, true
						}
					}
					if h.t < t && strings.HasPrefix(h.name, "swarm+=") {
						grown = true
					}
				}
				restartInside := false
				for _, r := range restarts {
					if r.t > prev && r.t < t {
						restartInside = true
					}
				}
				if known && grown && !restartInside && len(after[k]) > len(was) && strings.HasPrefix(after[k], was) {
					sig = "C17/reprovide-gap-after-region-split"
					note = fmt.Sprintf(" [the key's region was scheduled under %q before the first of the two advertisements and is under %q now]", was, after[k])
				}
				for _, r := range restarts {
					if r.t > prev && r.t < t {
						sig = "C17/reprovide-gap-across-restart"
						// D20's second form needs a slot that was missed while the node was cut off: a gap across a restart of a
						// node that was never offline nor saw its swarm change, with the region under the same prefix, is
						// something else
						disturbed := false
						for _, h := range hist {
							if h.t < t && (h.name == "offline" || strings.HasPrefix(h.name, "swarm")) {
								disturbed = true
							}
						}
						if !disturbed && r.before[k] == after[k] {
							sig = "C17/reprovide-gap-across-restart-undisturbed"
						}
						if r.before[k] != after[k] {
							sig = "C17/reprovide-gap-across-restart-with-rescheduled-region"
							note = fmt.Sprintf(" [restart at %v; the key's region was scheduled under %q before it and is under %q now]", r.t, r.before[k], after[k])
						}
						break
					}
				}
				if x.Tracing() {
					var cs []string
					for _, cl := range e.calls {
						cs = append(cs, cl)
					}
					note += fmt.Sprintf(" [router calls: %v] [schedule now: %v]", cs[max(0, len(cs)-40):], schedPrefixes())
				}
				x.Failf(sig, "[%s] k%d (kept) was not fully re-advertised between %v and %v: gap %v > interval %v + delay %v (final phase starts %v, ends %v, settle %v)"+note+"; every ADD_PROVIDER of this key: %v; operations at %v", desc, k, prev, t, t-prev, c17I, c17D, phaseStart, end, settle, all, func() []string {
					var o []string
					for _, h := range hist {
						o = append(o, fmt.Sprintf("%s@%v", h.name, h.t))
					}
					return o
				}())
				return
			}
			prev = t
		}
		if end-prev > c17I+c17D {
			x.Failf("C17/reprovide-missing", "[%s] k%d (kept) was last fully advertised at %v; nothing until the end %v (%v > %v)", desc, k, prev, end, end-prev, c17I+c17D)
			return
		}
	}
	x.Eval(len(sends) > 0)
	x.Outcome("sends=%d kept=%v", len(sends), kept)
	x.Obs("sends=%d", len(sends))
}
