//go:build verif

package net

import (
	"context"
	"encoding/binary"
	"errors"
	"fmt"
	"io"
	"sort"
	"strings"
	gosync "sync"
	"testing"
	"testing/synctest"
	"time"

	"github.com/libp2p/go-libp2p/core/network"
	"github.com/libp2p/go-libp2p/core/peer"
	"github.com/libp2p/go-libp2p/core/protocol"
	"google.golang.org/protobuf/proto"

	"github.com/libp2p/go-libp2p-kad-dht/internal/vmc"
	"github.com/libp2p/go-libp2p-kad-dht/internal/vmc/kid"
	"github.com/libp2p/go-libp2p-kad-dht/internal/vmc/sim"
	pb "github.com/libp2p/go-libp2p-kad-dht/pb"
)

// C11: every RPC reply is matched to its own request. Real message sender over the fake host;
// scripted remote peers echo the id (message key) of the request they read. E2 + env choices.

type c11cfg struct {
	threads []string // "req:P:r1", "msg:P:m1", "disc:P", "cancel:r1"
	faults  []string // fault alphabet offered at every exchange
	bg      bool     // requests run under context.Background(): a context that can never be cancelled
}

func c11Configs(tier string) []vmc.Cfg {
	b := 2
	if tier == "thorough" {
		b = 3
	}
	all := []string{"reply", "reset", "never", "late", "garbage"}
	mk := func(name string, threads ...string) vmc.Cfg {
		return vmc.Cfg{Name: name, Budget: b, Data: c11cfg{threads: threads, faults: all}}
	}
	return []vmc.Cfg{
		mk("two-requests-same-peer", "req:P:r1", "req:P:r2"),
		mk("three-requests-same-peer", "req:P:r1", "req:P:r2", "req:P:r3"),
		mk("two-sequential+one", "req:P:r1,r3", "req:P:r2"),
		mk("two-peers", "req:P:r1", "req:Q:r2", "req:P:r3"),
		mk("request+message", "req:P:r1", "msg:P:m1", "req:P:r2"),
		mk("disconnect", "req:P:r1,r3", "req:P:r2", "disc:P"),
		mk("cancel", "req:P:r1", "req:P:r2", "cancel:r1"),
		// a fire-and-forget message whose context is already cancelled, issued while an exchange with the
		// same peer holds the per-peer lock (then its Lock has exactly one ready case: the cancelled context)
		mk("cancelled-message", "req:P:r1", "req:P:r2", "cmsg:P:m1"),
	}
}

// C10 part "sender": "silence cannot permanently block the requesting node" at the level of the real
// message sender, for callers whose context can never be cancelled (context.Background(), seed C10-h):
// the read timeout is then the only thing between a silent peer and a caller wedged forever while it
// holds the per-peer lock. Same harness, same fault alphabet (reply, reset, never, late, garbage).
func c10SenderConfigs(tier string) []vmc.Cfg {
	b := 2
	if tier == "thorough" {
		b = 3
	}
	all := []string{"reply", "reset", "never", "late", "garbage"}
	mk := func(name string, threads ...string) vmc.Cfg {
		return vmc.Cfg{Name: name, Budget: b, Data: c11cfg{threads: threads, faults: all, bg: true}}
	}
	return []vmc.Cfg{
		mk("background-ctx/one-request", "req:P:r1"),
		mk("background-ctx/two-requests-same-peer", "req:P:r1", "req:P:r2"),
		mk("background-ctx/two-sequential+one", "req:P:r1,r3", "req:P:r2"),
		mk("background-ctx/request+message", "req:P:r1", "msg:P:m1", "req:P:r2"),
	}
}

func TestVMC_C10sender(t *testing.T) {
	vmc.Main(t, vmc.Harness{ID: "C10", Configs: c10SenderConfigs, Run: c11Run, Bubble: true, ShardSubtree: true})
}

func TestVMC_C11(t *testing.T) {
	vmc.Main(t, vmc.Harness{ID: "C11", Configs: c11Configs, Run: c11Run, Bubble: true, ShardSubtree: true})
}

type c11stream struct {
	name     string
	to       peer.ID
	remote   *sim.Stream
	reads    []string // request ids read by the remote, in order
	answered int      // how many of them were answered in time
	failed   bool     // an exchange on this stream failed (reset / never / late / garbage)
	openedAt int
}

type c11result struct {
	id       string
	to       peer.ID
	err      error
	replyKey string
	callAt   int
	retAt    int
	kind     string
}

func c11Run(x *vmc.X, cfg vmc.Cfg) {
	c := cfg.Data.(c11cfg)
	self := kid.Peer("0", 0)
	peers := map[string]peer.ID{"P": kid.Peer("1", 0), "Q": kid.Peer("1", 1)}
	h := sim.NewHost(self)
	defer h.Close()
	sched := vmc.NewSched(x)
	var mu gosync.Mutex
	clock := 0
	tick := func() int { mu.Lock(); defer mu.Unlock(); clock++; return clock }
	var streams []*c11stream
	failf := func(sig, format string, args ...any) {
		mu.Lock()
		defer mu.Unlock()
		x.Failf(sig, format, args...)
	}
	newStreamFails := 0
	finished := false // set when the exploration of this execution is over: no more choices
	hasDisc := false
	for _, th := range c.threads {
		if strings.HasPrefix(th, "disc") {
			hasDisc = true
		}
	}
	callAt := map[string]int{}
	discAt := map[peer.ID]int{}
	h.OpenStream = func(ctx context.Context, conn *sim.Conn, protos []protocol.ID) (*sim.Stream, error) {
		// environment: opening the stream may fail (at most once per execution)
		if !finished && newStreamFails == 0 && x.Choose(2, vmc.Env, "NewStream ok/fail") == 1 {
			newStreamFails++
			return nil, errors.New("sim: NewStream failed")
		}
		local, remote := sim.NewStreamPair(conn, protos[0], network.DirOutbound)
		mu.Lock()
		st := &c11stream{name: local.Name(), to: conn.RemotePeer(), remote: remote, openedAt: clock}
		streams = append(streams, st)
		mu.Unlock()
		go c11Remote(x, sched, st, c.faults, failf, &mu, &finished, callAt, discAt)
		return local, nil
	}
	// scheduling points: opening, writing and resetting streams (reads happen on a helper goroutine of
	// the sender and commute with everything else until the reply is handed over)
	h.Point = func(label string) {
		if strings.HasPrefix(label, "stream.read") || strings.HasPrefix(label, "stream.close") {
			return
		}
		sched.Point(label)
	}
	ms := NewMessageSenderImpl(h, []protocol.ID{"/sim/kad/1.0.0"})
	var results []*c11result
	ctxs := map[string]context.CancelFunc{}
	reqCtx := map[string]context.Context{}
	for _, th := range c.threads {
		var kind, a, b string
		fmt.Sscanf(th, "%s", &kind)
		parts := splitColon(th)
		kind, a = parts[0], parts[1]
		if len(parts) > 2 {
			b = parts[2]
		}
		if kind == "req" || kind == "msg" {
			for _, id := range splitComma(b) {
				ctx, cancel := context.WithCancel(context.Background())
				ctxs[id] = cancel
				reqCtx[id] = ctx
				if c.bg {
					reqCtx[id] = context.Background()
				}
			}
		}
		_ = a
	}
	defer func() {
		for _, c := range ctxs {
			c()
		}
	}()
	cancelID := ""
	cancelDone := false
	cmsgTo, cmsgID, cmsgDone := "", "", false
	for ti, th := range c.threads {
		parts := splitColon(th)
		kind := parts[0]
		switch kind {
		case "req", "msg":
			to := peers[parts[1]]
			ids := splitComma(parts[2])
			sched.Go(fmt.Sprintf("t%d-%s", ti, parts[2]), func() {
				for n, id := range ids {
					if n > 0 {
						sched.Point("next " + id)
					}
					r := &c11result{id: id, to: to, kind: kind}
					r.callAt = tick()
					mu.Lock()
					callAt[id] = r.callAt
					mu.Unlock()
					m := pb.NewMessage(pb.Message_PING, []byte(id), 0)
					if kind == "req" {
						resp, err := ms.SendRequest(reqCtx[id], to, m)
						r.err = err
						if resp != nil {
							r.replyKey = string(resp.GetKey())
						}
					} else {
						r.err = ms.SendMessage(reqCtx[id], to, m)
					}
					r.retAt = tick()
					mu.Lock()
					results = append(results, r)
					mu.Unlock()
				}
			})
		case "disc":
			to := peers[parts[1]]
			sched.Go(fmt.Sprintf("t%d-disconnect", ti), func() {
				ms.OnDisconnect(context.Background(), to)
				t := tick()
				mu.Lock()
				discAt[to] = t
				mu.Unlock()
			})
		case "cancel":
			cancelID = parts[1]
		case "cmsg":
			cmsgTo, cmsgID = parts[1], parts[2]
		}
	}
	idle := 0
	for steps := 0; steps < 400; steps++ {
		synctest.Wait()
		if len(sched.Parked()) == 0 {
			if sched.AllDone() {
				break
			}
			idle++
			if idle > 6 {
				x.Failf("C11/hang", "threads %v cannot finish", sched.Unfinished())
				finished = true
				sched.Finish()
				h.ResetAllStreams()
				return
			}
			time.Sleep(dhtReadMessageTimeout + time.Second) // read timeouts / late replies
			continue
		}
		idle = 0
		// serialization invariant at every quiescent instant: per peer at most one live stream
		if !hasDisc && !c11LiveCheck(x, streams, &mu) {
			finished = true
			sched.Finish()
			h.ResetAllStreams()
			return
		}
		// Cancellation is offered only while the request is blocked inside SendRequest (waiting for the
		// per-peer lock or for the reply): then exactly one select case becomes ready. A context that is
		// already cancelled when Lock/ctxReadMsg start would make Go pick a ready case at random.
		var acts []vmc.Action
		if cancelID != "" && !cancelDone {
			mu.Lock()
			started := callAt[cancelID] > 0
			returned := false
			for _, r := range results {
				if r.id == cancelID {
					returned = true
				}
			}
			mu.Unlock()
			parkedNow := false
			for _, pl := range sched.Parked() {
				if strings.Contains(pl, "-"+cancelID+"@") || strings.Contains(pl, "-"+cancelID+",") {
					parkedNow = true
				}
			}
			if started && !returned && !parkedNow {
				acts = append(acts, vmc.Action{Label: "cancel " + cancelID, Cost: 1, Do: func() { cancelDone = true; ctxs[cancelID]() }})
			}
		}
		if cmsgID != "" && !cmsgDone {
			// some request to that peer is inside SendRequest (started, not returned): one of them holds the lock
			mu.Lock()
			inside := false
			for id, at := range callAt {
				if at == 0 || !strings.HasPrefix(id, "r") {
					continue
				}
				returned := false
				for _, r := range results {
					if r.id == id {
						returned = true
					}
				}
				if !returned {
					inside = true
				}
			}
			mu.Unlock()
			if inside {
				acts = append(acts, vmc.Action{Label: "message with a cancelled context", Cost: 1, Do: func() {
					cmsgDone = true
					cctx, ccancel := context.WithCancel(context.Background())
					ccancel()
					to := peers[cmsgTo]
					sched.GoNow("t-"+cmsgID, func() {
						r := &c11result{id: cmsgID, to: to, kind: "msg"}
						r.callAt = tick()
						r.err = ms.SendMessage(cctx, to, pb.NewMessage(pb.Message_PING, []byte(cmsgID), 0))
						r.retAt = tick()
						mu.Lock()
						results = append(results, r)
						mu.Unlock()
					})
				}})
			}
		}
		if !sched.Step(acts) {
			break
		}
	}
	synctest.Wait()
	finished = true
	sched.Finish()
	time.Sleep(30 * time.Second)
	synctest.Wait()
	defer h.ResetAllStreams()
	if x.Failed() {
		return
	}
	// at rest (every call returned, every invalidation and timeout has run) at most one stream per peer is left
	// open: the one of the sender that serves the peer now. A second one belongs to a sender that was dropped
	// without being invalidated - the next exchange then runs beside it (seed C11-j)
	openAtRest := map[peer.ID][]string{}
	mu.Lock()
	for _, st := range streams {
		if !st.remote.IsReset() && !st.remote.Peer().WriteClosed() {
			openAtRest[st.to] = append(openAtRest[st.to], st.name)
		}
	}
	mu.Unlock()
	for to, names := range openAtRest {
		if len(names) > 1 {
			x.Failf("C11/more-than-one-open-stream-at-rest", "after every call returned, %d streams to %s are still open (%v): exchanges with one peer are not confined to one stream", len(names), to, names)
			return
		}
	}
	// oracle on results
	res := ""
	sort.Slice(results, func(i, j int) bool { return results[i].id < results[j].id })
	for _, r := range results {
		if r.kind == "req" && r.err == nil && r.replyKey != r.id {
			x.Failf("C11/wrong-reply", "request %s got the reply to request %q", r.id, r.replyKey)
			return
		}
		res += fmt.Sprintf("%s:%v ", r.id, r.err == nil)
	}
	x.Obs("%s streams=%d", res, len(streams))
	x.Outcome("%s", res)
}

// c11LiveCheck: at a quiescent instant at most one exchange per peer is in flight (a request read
// by the remote and neither answered nor failed), and at most one stream per peer carries one.
func c11LiveCheck(x *vmc.X, streams []*c11stream, mu *gosync.Mutex) bool {
	mu.Lock()
	defer mu.Unlock()
	inflight := map[peer.ID][]string{}
	for _, st := range streams {
		if n := len(st.reads) - st.answered; n > 0 && !st.failed && !st.remote.IsReset() {
			inflight[st.to] = append(inflight[st.to], fmt.Sprintf("%s:%v", st.name, st.reads[len(st.reads)-n:]))
		}
	}
	for p, l := range inflight {
		if len(l) > 1 {
			x.Failf("C11/exchanges-not-serialized", "exchanges with one peer are in flight on %d streams at once: %v (%x)", len(l), l, []byte(p)[len(p)-2:])
			return false
		}
	}
	return true
}

func splitColon(s string) []string { return splitBy(s, ':') }
func splitComma(s string) []string { return splitBy(s, ',') }
func splitBy(s string, sep byte) []string {
	var out []string
	cur := ""
	for i := 0; i < len(s); i++ {
		if s[i] == sep {
			out = append(out, cur)
			cur = ""
		} else {
			cur += string(s[i])
		}
	}
	return append(out, cur)
}

// c11Remote is the scripted remote end of one stream: it reads framed requests and, per request,
// lets the explorer choose how the exchange goes.
func c11Remote(x *vmc.X, sched *vmc.Sched, st *c11stream, faults []string, failf func(string, string, ...any), mu *gosync.Mutex, finished *bool, callAt map[string]int, discAt map[peer.ID]int) {
	s := st.remote
	rd := &byteReader{s}
	for {
		l, err := binary.ReadUvarint(rd)
		if err != nil {
			return
		}
		buf := make([]byte, l)
		if _, err := io.ReadFull(s, buf); err != nil {
			return
		}
		m := new(pb.Message)
		if err := proto.Unmarshal(buf, m); err != nil {
			return
		}
		id := string(m.GetKey())
		mu.Lock()
		pendingBefore := len(st.reads) - st.answered
		wasFailed := st.failed
		st.reads = append(st.reads, id)
		mu.Unlock()
		if id[0] == 'm' {
			// one-way message: no reply expected
			mu.Lock()
			st.answered++
			mu.Unlock()
			continue
		}
		if pendingBefore > 0 || wasFailed {
			failf("C11/request-on-busy-or-failed-stream", "request %s arrived on stream %s while %d exchange(s) were unanswered on it (failed=%v; requests so far %v)", id, st.name, pendingBefore, wasFailed, st.reads)
			return
		}
		mu.Lock()
		d, disconnected := discAt[st.to]
		reused := disconnected && callAt[id] > d && st.openedAt < d
		mu.Unlock()
		if reused {
			failf("C11/stream-reused-after-disconnect", "request %s was called after OnDisconnect had returned but travelled on stream %s opened before the disconnect", id, st.name)
			return
		}
		if *finished {
			return
		}
		sched.Point("remote " + st.name + " got " + id)
		if *finished {
			return
		}
		how := faults[x.Choose(len(faults), vmc.Env, "exchange "+id)]
		switch how {
		case "reply", "late":
			if how == "late" {
				mu.Lock()
				st.failed = true
				mu.Unlock()
				time.Sleep(dhtReadMessageTimeout + time.Second)
			}
			b, _ := proto.Marshal(pb.NewMessage(pb.Message_PING, []byte(id), 0))
			var lp [binary.MaxVarintLen64]byte
			n := binary.PutUvarint(lp[:], uint64(len(b)))
			if _, err := s.Write(append(lp[:n:n], b...)); err != nil {
				return
			}
			if how == "reply" {
				mu.Lock()
				st.answered++
				mu.Unlock()
			}
		case "reset":
			mu.Lock()
			st.failed = true
			mu.Unlock()
			_ = s.Reset()
			return
		case "never":
			mu.Lock()
			st.failed = true
			mu.Unlock()
		case "garbage":
			mu.Lock()
			st.failed = true
			mu.Unlock()
			_, _ = s.Write([]byte{0x05, 0xff, 0xff, 0xff, 0xff, 0xff})
		}
	}
}

type byteReader struct{ r io.Reader }

func (b *byteReader) ReadByte() (byte, error) {
	var one [1]byte
	_, err := io.ReadFull(b.r, one[:])
	return one[0], err
}
