//go:build verif

package dht

import (
	"context"
	"errors"
	"fmt"
	"strings"
	"testing"
	"testing/synctest"
	"time"

	"github.com/ipfs/go-cid"
	"github.com/libp2p/go-libp2p/core/event"
	"github.com/libp2p/go-libp2p/core/host"
	"github.com/libp2p/go-libp2p/core/network"
	"github.com/libp2p/go-libp2p/core/peer"
	"github.com/libp2p/go-libp2p/core/protocol"
	ma "github.com/multiformats/go-multiaddr"
	"google.golang.org/protobuf/proto"

	dhtcfg "github.com/libp2p/go-libp2p-kad-dht/internal/config"
	"github.com/libp2p/go-libp2p-kad-dht/internal/vmc"
	"github.com/libp2p/go-libp2p-kad-dht/internal/vmc/kid"
	"github.com/libp2p/go-libp2p-kad-dht/internal/vmc/sim"
	"github.com/libp2p/go-libp2p-kad-dht/internal/vmc/vsync"
	pb "github.com/libp2p/go-libp2p-kad-dht/pb"
	"github.com/libp2p/go-libp2p-kad-dht/records"
)

// C14 (standard DHT): Close at every quiescent instant of an in-flight operation, for every
// option combination; constructor failure points.

type c14cfg struct {
	kind    string // "close" | "ctor"
	mode    string // client | server | auto | autoserver
	subs    string // all | noprov | novalues | none
	refresh bool
	op      string
	fail    string // ctor: failure point
	silent  bool   // one peer never answers
}

var c14Ops = []string{"none", "closest", "getvalue", "putvalue", "provide", "findprov", "search", "refresh", "inbound", "inbound-half"}

func c14Configs(tier string) []vmc.Cfg {
	var out []vmc.Cfg
	modes := []string{"client", "server", "auto", "autoserver"}
	subs := []string{"all", "noprov", "novalues", "none"}
	for _, m := range modes {
		for _, s := range subs {
			for _, refresh := range []bool{false, true} {
				for _, op := range c14Ops {
					for _, silent := range []bool{false, true} {
						if strings.HasPrefix(op, "inbound") && (m == "client" || m == "auto") {
							continue
						}
						if silent && (op == "none" || strings.HasPrefix(op, "inbound")) {
							continue
						}
						if tier != "thorough" {
							// quick: every (mode,subsystem,refresh) with two operations, every operation in two settings
							full := s == "all" || (m == "auto" && s == "none" && refresh)
							if !full && op != "none" && op != "closest" {
								continue
							}
							if silent && !(m == "server" && s == "all" && !refresh) {
								continue
							}
						}
						c := c14cfg{kind: "close", mode: m, subs: s, refresh: refresh, op: op, silent: silent}
						out = append(out, vmc.Cfg{Name: fmt.Sprintf("close/%s/%s/refresh=%v/%s/silent=%v", m, s, refresh, op, silent), Budget: 1, Data: c})
					}
				}
			}
		}
	}
	for _, m := range []string{"auto", "autoserver"} {
		// (a single event: with a second one queued the subscriber's select would have two ready cases
		// after Close cancelled the context, and Go picks at random)
		for _, ev := range []string{"reachability-public", "reachability-private"} {
			out = append(out, vmc.Cfg{Name: fmt.Sprintf("event/%s/%s", m, ev), Budget: 100, Data: c14cfg{kind: "event", mode: m, subs: "all", op: ev}})
		}
	}
	for _, m := range modes {
		for _, s := range subs {
			for _, f := range []string{"invalid-mode", "subscribe", "provider-option", "bad-option", "amino-validate"} {
				out = append(out, vmc.Cfg{Name: fmt.Sprintf("ctor/%s/%s/%s", m, s, f), Data: c14cfg{kind: "ctor", mode: m, subs: s, fail: f}})
			}
		}
	}
	return out
}

func TestVMC_C14(t *testing.T) {
	vmc.Main(t, vmc.Harness{ID: "C14", Configs: c14Configs, Run: c14Run, Bubble: true})
}

func c14Mode(m string) ModeOpt {
	switch m {
	case "server":
		return ModeServer
	case "auto":
		return ModeAuto
	case "autoserver":
		return ModeAutoServer
	}
	return ModeClient
}

func c14SubOpts(s string) []Option {
	switch s {
	case "noprov":
		return []Option{DisableProviders()}
	case "novalues":
		return []Option{DisableValues()}
	case "none":
		return []Option{DisableProviders(), DisableValues()}
	}
	return nil
}

// c14Leaks filters the goroutines that do not belong to the component under test.
func c14Leaks() []string {
	var real []string
	for _, g := range vmc.LeakedGoroutines() {
		if strings.Contains(g, "pstoremem") || strings.Contains(g, "waitThenClose") || strings.Contains(g, "synctest.") || strings.Contains(g, "c14") {
			continue
		}
		real = append(real, g)
	}
	return real
}

func c14Run(x *vmc.X, cfg vmc.Cfg) {
	c := cfg.Data.(c14cfg)
	if c.kind == "ctor" {
		c14Ctor(x, c)
		return
	}
	if c.kind == "event" {
		c14Event(x, c)
		return
	}
	beh := []string{sim.BHonest, sim.BHonest, sim.BHonest}
	if c.silent {
		beh[1] = sim.BSilent
	}
	cc := c01cfg{n: 3, k: 3, a: 2, b: 2, behaviours: beh, knowledge: "full"}
	w, ids := c01World(cc)
	vkey := kid.KeyWithPrefix("v", "000", 0)
	mh := kid.Mh("000", 0)
	pcid := cid.NewCidV1(cid.Raw, mh)
	for i, id := range ids {
		p := w.Peers[id]
		p.Records[vkey] = sim.Val(1+i%2, "from-"+p.Name)
		p.Providers[string(mh)] = []peer.AddrInfo{{ID: kid.Peer("101", 5), Addrs: []ma.Multiaddr{c03ProvAddr}}}
	}
	l, err := newLH(x, w, lhParams{k: 3, alpha: 2, beta: 2, mode: c14Mode(c.mode), modeSet: true, opts: c14SubOpts(c.subs), autoRefresh: c.refresh, countBus: true})
	if err != nil {
		x.Failf("C14/setup", "%v", err)
		return
	}
	hostClosed := false
	closeReturned := false
	closeStarted := false
	var cancelOp context.CancelFunc
	defer func() {
		if hostClosed {
			return
		}
		if cancelOp != nil {
			cancelOp()
		}
		if !closeStarted {
			l.close() // pruned or aborted before Close was chosen: ordinary tear-down
			return
		}
		l.h.ResetAllStreams()
		l.cancel()
		if closeReturned {
			l.h.Close()
		}
		// a wedged Close is not waited for
	}()
	l.h.SetAddrs([]ma.Multiaddr{ma.StringCast("/ip4/8.8.8.8/tcp/4001")})
	l.seed(ids)

	ctx, cancelOpF := context.WithCancel(context.Background())
	cancelOp = cancelOpF
	doneCh := make(chan string, 1)
	opRunning := false
	run := func(f func() string) {
		opRunning = true
		go func() { doneCh <- f() }()
	}
	var inbound *sim.Stream
	switch c.op {
	case "closest":
		run(func() string { _, err := l.d.GetClosestPeers(ctx, vkey); return fmt.Sprint(err) })
	case "getvalue":
		run(func() string { _, err := l.d.GetValue(ctx, vkey, Quorum(2)); return fmt.Sprint(err) })
	case "search":
		run(func() string {
			ch, err := l.d.SearchValue(ctx, vkey, Quorum(0))
			if err != nil {
				return fmt.Sprint(err)
			}
			n := 0
			for range ch {
				n++
			}
			return fmt.Sprintf("values=%d", n)
		})
	case "putvalue":
		run(func() string { return fmt.Sprint(l.d.PutValue(ctx, vkey, sim.Val(5, "mine"))) })
	case "provide":
		run(func() string { return fmt.Sprint(l.d.Provide(ctx, pcid, true)) })
	case "findprov":
		run(func() string {
			n := 0
			for range l.d.FindProvidersAsync(ctx, pcid, 0) {
				n++
			}
			return fmt.Sprintf("providers=%d", n)
		})
	case "refresh":
		run(func() string { return fmt.Sprint(<-l.d.ForceRefresh()) })
	case "inbound", "inbound-half":
		inbound = l.h.Inbound(ids[0], protocol.ID("/sim/kad/1.0.0"))
		if inbound == nil {
			x.Failf("C14/setup", "no handler for the inbound stream in mode %s", c.mode)
			return
		}
		req := &pb.Message{Type: pb.Message_FIND_NODE, Key: []byte(ids[1])}
		b, _ := proto.Marshal(req)
		raw := frame(b)
		if c.op == "inbound-half" {
			raw = raw[:len(raw)/2]
		}
		_, _ = inbound.Write(raw)
	}

	// explore: at every quiescent instant either deliver one pending network event or Close
	closeDone := make(chan error, 1)
	closing := false
	result := ""
	opDone := !opRunning
	pollOp := func() {
		if opDone {
			return
		}
		select {
		case result = <-doneCh:
			opDone = true
		default:
		}
	}
	for !closing {
		synctest.Wait()
		l.drain()
		pollOp()
		pend := l.net.PendingEvents()
		labels := make([]string, len(pend))
		for i, p := range pend {
			labels[i] = l.net.Label(p)
		}
		n := len(pend)
		extra := []string{"close"}
		if n == 0 && !opDone {
			extra = append(extra, "+31s")
		}
		if l.step > 60 {
			x.Failf("C14/runaway", "more than 60 deliveries")
			return
		}
		if x.Seen(fmt.Sprintf("%s|%v|%v|t=%v", l.deliveredKey(), labels, opDone, n == 0 && !opDone)) && n > 0 {
			return
		}
		i := x.Choose(n+len(extra), vmc.Order, "deliver "+fmt.Sprint(labels)+" "+fmt.Sprint(extra))
		if i < n {
			l.step++
			l.delivered = append(l.delivered, l.net.Label(pend[i]))
			time.Sleep(7 * time.Millisecond)
			l.net.Deliver(pend[i])
			continue
		}
		switch extra[i-n] {
		case "close":
			closing = true
		case "+31s":
			time.Sleep(31 * time.Second)
			l.step++
			l.delivered = append(l.delivered, "+31s")
			if l.step > 12 && n == 0 {
				closing = true
			}
		}
	}
	x.Obs("close after %d steps, op done=%v", l.step, opDone)
	closeStarted = true
	go func() { closeDone <- l.d.Close() }()
	var closeErr error
	waitClose := func() bool {
		select {
		case closeErr = <-closeDone:
			closeReturned = true
			return true
		default:
			return false
		}
	}
	// whatever is in flight is answered in canonical order; Close and the operation must return
	// (operations that returned early - quorum reached, enough providers - leave per-query goroutines
	// behind that wind down asynchronously, as documented: only instants with nothing outstanding count)
	quietAtClose := opDone && inbound == nil && len(l.net.PendingEvents()) == 0
	for round := 0; round < 200; round++ {
		synctest.Wait()
		pollOp()
		if !closeReturned && waitClose() && quietAtClose {
			// nothing of the caller's was in flight: whatever is still alive when Close returns was
			// started by the instance and not waited for
			if left := c14Leaks(); len(left) > 0 {
				x.Failf("C14/dht/close-returned-early/"+left[0], "Close (mode %s, %s, refresh=%v, after %s and %d deliveries) returned while %d goroutine(s) of the instance are still running: %v", c.mode, c.subs, c.refresh, c.op, l.step, len(left), left)
				return
			}
		}
		if closeReturned && opDone {
			break
		}
		pend := l.net.PendingEvents()
		if len(pend) == 0 {
			if round > 150 {
				break
			}
			time.Sleep(31 * time.Second)
			continue
		}
		time.Sleep(7 * time.Millisecond)
		l.net.Deliver(pend[0])
	}
	if !closeReturned {
		x.Failf("C14/dht/close-hangs", "Close (mode %s, %s, refresh=%v) during %s after %d deliveries has not returned although every request was answered and over an hour of virtual time passed; goroutines: %v", c.mode, c.subs, c.refresh, c.op, l.step, c14Leaks())
		return
	}
	if closeErr != nil {
		x.Failf("C14/dht/close-error", "Close returned %v", closeErr)
		return
	}
	if !opDone {
		x.Failf("C14/dht/op-hangs-after-close", "%s in flight at Close (after %d deliveries) never returned; goroutines: %v", c.op, l.step, c14Leaks())
		return
	}
	// Close may be called repeatedly
	second := make(chan error, 1)
	go func() { second <- l.d.Close() }()
	synctest.Wait()
	select {
	case <-second:
	default:
		time.Sleep(time.Minute)
		synctest.Wait()
		select {
		case <-second:
		default:
			x.Failf("C14/dht/second-close-hangs", "a second Close does not return; goroutines: %v", c14Leaks())
			return
		}
	}
	// operations started after Close return
	actx, acancel := context.WithTimeout(context.Background(), 10*time.Second)
	after := make(chan struct{})
	go func() {
		defer close(after)
		_, _ = l.d.GetClosestPeers(actx, vkey)
		_ = l.d.Provide(actx, pcid, false)
		_, _ = l.d.GetValue(actx, vkey)
	}()
	for round := 0; round < 50; round++ {
		synctest.Wait()
		select {
		case <-after:
			round = 100
		default:
			if pend := l.net.PendingEvents(); len(pend) > 0 {
				l.net.Deliver(pend[0])
			} else {
				time.Sleep(11 * time.Second)
			}
		}
	}
	acancel()
	synctest.Wait()
	select {
	case <-after:
	default:
		x.Failf("C14/dht/op-after-close-hangs", "operations started after Close have not returned 10s after their deadline; goroutines: %v", c14Leaks())
		return
	}
	// streams are owned by the host: closing the host ends the handlers
	if inbound != nil {
		_ = inbound.Reset()
	}
	l.h.ResetAllStreams()
	l.cancel()
	cancelOp()
	synctest.Wait()
	time.Sleep(2 * time.Minute)
	synctest.Wait()
	for _, p := range l.net.PendingEvents() {
		l.net.DeliverResult(p, nil, sim.ErrSimTimeout)
	}
	synctest.Wait()
	if left := c14Leaks(); len(left) > 0 {
		x.Failf("C14/dht/leak/"+left[0], "after Close (mode %s, %s, refresh=%v, during %s after %d deliveries), the end of the operation and 2 virtual minutes, %d goroutine(s) remain: %v", c.mode, c.subs, c.refresh, c.op, l.step, len(left), left)
	}
	if n := l.bus.Open(); n != 0 {
		x.Failf("C14/dht/subscription-left", "%d event bus subscription(s) still open after Close", n)
	}
	if n := l.h.NotifieeCount(); n != 0 {
		x.Failf("C14/dht/notifiee-left", "%d network notifiee(s) still registered after Close", n)
	}
	hostClosed = true
	l.h.Close()
	synctest.Wait()
	x.Eval(opRunning && l.step > 0)
	x.Outcome("op=%s closed-after=%d result=%s", c.op, l.step, strings.SplitN(result, ":", 2)[0])
}

// c14Ctor: New fails at a chosen point; nothing may be left running or registered.
func c14Ctor(x *vmc.X, c c14cfg) {
	h := sim.NewHost(lhSelf)
	bus := &sim.CountingBus{Bus: h.EventBus()}
	h.SetEventBus(bus)
	w := sim.NewWorld(lhSelf, 3)
	net := sim.NewNet(w)
	h.DialFn = net.Dial
	opts := []Option{
		ProtocolPrefix("/sim"), BucketSize(3), Mode(c14Mode(c.mode)), Validator(sim.Validator()),
		WithCustomMessageSender(func(h host.Host, protos []protocol.ID) pb.MessageSenderWithDisconnect { return net.Sender(string(protos[0])) }),
	}
	opts = append(opts, c14SubOpts(c.subs)...)
	injected := errors.New("c14: injected option failure")
	switch c.fail {
	case "invalid-mode":
		opts = append(opts, Mode(ModeOpt(17)))
	case "subscribe":
		bus.FailAt = 1
	case "provider-option":
		opts = append(opts, ProviderManagerOpts(func(pm *records.ProviderManager) error { return injected }))
	case "bad-option":
		opts = append(opts, func(*dhtcfg.Config) error { return injected })
	case "amino-validate":
		opts = append(opts, ProtocolPrefix("/ipfs"))
	}
	d, err := New(h, opts...)
	synctest.Wait()
	expectFail := !(c.fail == "provider-option" && (c.subs == "noprov" || c.subs == "none"))
	if err == nil {
		if expectFail {
			x.Failf("C14/ctor/no-error", "New succeeded although %s was injected", c.fail)
		}
		d.Close()
		h.Close()
		synctest.Wait()
		x.Eval(false)
		return
	}
	if d != nil {
		x.Failf("C14/ctor/handle-with-error", "New returned both a DHT and the error %v", err)
	}
	time.Sleep(time.Second)
	synctest.Wait()
	if left := c14Leaks(); len(left) > 0 {
		x.Failf("C14/ctor/leak/"+c.fail, "New failed (%v) in mode %s/%s and left %d goroutine(s) running: %v", err, c.mode, c.subs, len(left), left)
	}
	if n := bus.Open(); n != 0 {
		x.Failf("C14/ctor/subscription-left/"+c.fail, "New failed (%v) and left %d event bus subscription(s) open", err, n)
	}
	if n := h.NotifieeCount(); n != 0 {
		x.Failf("C14/ctor/notifiee-left/"+c.fail, "New failed (%v) and left %d network notifiee(s) registered", err, n)
	}
	h.Close()
	synctest.Wait()
	x.Eval(true)
	x.Outcome("%s -> error", c.fail)
}

// c14Event: Close in every interleaving (lock acquisitions of dht.go and host registry calls are
// scheduling points) with the subscriber loop handling a reachability change (mode switch).
// When Close returns, no goroutine the DHT started may still be inside such a step.
func c14Event(x *vmc.X, c c14cfg) {
	w := sim.NewWorld(lhSelf, 3)
	l, err := newLH(x, w, lhParams{k: 3, alpha: 2, beta: 2, mode: c14Mode(c.mode), modeSet: true, countBus: true})
	if err != nil {
		x.Failf("C14/setup", "%v", err)
		return
	}
	s := vmc.NewSched(x)
	on := false
	vsync.Hook = func(addr any, op string) {
		if on && (op == "lock" || op == "wg-wake") {
			s.Point(op)
		}
	}
	defer func() { vsync.Hook = nil }()
	l.h.Point = func(label string) {
		if on {
			s.Point("host:" + label)
		}
	}
	closeStarted, closeReturned := false, false
	defer func() {
		on = false
		s.Finish()
		l.h.Point = nil
		if !closeStarted || closeReturned {
			l.close()
		}
	}()
	on = true
	em, err := l.h.EventBus().Emitter(new(event.EvtLocalReachabilityChanged))
	if err != nil {
		x.Failf("C14/setup", "%v", err)
		return
	}
	defer em.Close()
	emit := func(r network.Reachability) { _ = em.Emit(event.EvtLocalReachabilityChanged{Reachability: r}) }
	switch c.op {
	case "reachability-public":
		emit(network.ReachabilityPublic)
	case "reachability-private":
		emit(network.ReachabilityPrivate)
	case "public-then-private":
		emit(network.ReachabilityPublic)
		emit(network.ReachabilityPrivate)
	}
	var closeErr error
	closeStarted = true
	s.Go("closer", func() { closeErr = l.d.Close(); closeReturned = true })
	seen := false
	for steps := 0; steps < 400; steps++ {
		synctest.Wait()
		if !seen && s.Done("closer") {
			seen = true
			if left := s.ParkedOthers(); len(left) > 0 {
				x.Failf("C14/dht/close-returned-early", "mode %s, %s: Close returned while a goroutine of the DHT is still inside %v", c.mode, c.op, left)
				return
			}
		}
		if len(s.Parked()) == 0 {
			break
		}
		s.Step(nil)
	}
	synctest.Wait()
	if !s.AllDone() {
		x.Failf("C14/dht/close-hangs", "mode %s, %s: Close cannot finish (parked %v); goroutines %v", c.mode, c.op, s.Parked(), c14Leaks())
		return
	}
	on = false
	s.Finish()
	if closeErr != nil {
		x.Failf("C14/dht/close-error", "%v", closeErr)
	}
	l.cancel()
	synctest.Wait()
	if left := c14Leaks(); len(left) > 0 {
		x.Failf("C14/dht/leak/"+left[0], "mode %s, %s: after Close %d goroutine(s) remain: %v", c.mode, c.op, len(left), left)
	}
	if n := l.bus.Open(); n != 0 {
		x.Failf("C14/dht/subscription-left", "%d event bus subscription(s) still open after Close", n)
	}
	x.Eval(true)
	x.Outcome("mode-after=%v", l.d.Mode())
}
