//go:build verif

package dht

import (
	"fmt"
	"strings"
	"testing"

	"github.com/libp2p/go-libp2p/core/peer"

	"github.com/libp2p/go-libp2p-kad-dht/internal/vmc"
	"github.com/libp2p/go-libp2p-kad-dht/internal/vmc/kid"
	"github.com/libp2p/go-libp2p-kad-dht/internal/vmc/sim"
)

// C02: convergence. Networks are subsets of peers placed in 3-bit kad cells; each peer's knowledge
// is *derived* (its Kademlia table over the network with bucket size K, or "knows everyone").

type c02cfg struct {
	mask    int  // which cells are populated (bit i = cell i); thorough: two peers in dense cells
	dense   bool // second peer in cells 0..1
	k, a, b int
	family  string // "kbucket" or "everyone"
	seeds   []int  // indices into the populated peer list
	keyCell string
}

func c02Peers(c c02cfg) []peer.ID {
	cells := []string{"000", "001", "010", "011", "100", "101", "110", "111"}
	var ids []peer.ID
	for i, cell := range cells {
		if c.mask&(1<<i) != 0 {
			ids = append(ids, kid.Peer(cell, 0))
			if c.dense && i < 2 {
				ids = append(ids, kid.Peer(cell, 1))
			}
		}
	}
	return ids
}

func cpl(a, b []byte) int {
	x, y := kid.BitsOf(a, 64), kid.BitsOf(b, 64)
	n := 0
	for n < 64 && x[n] == y[n] {
		n++
	}
	return n
}

func c02World(c c02cfg) (*sim.World, []peer.ID) {
	w := sim.NewWorld(lhSelf, c.k)
	ids := c02Peers(c)
	for i, id := range ids {
		p := w.Add(fmt.Sprintf("p%d(%s)", i, kid.BitsOf([]byte(id), 3)), id, sim.BHonest)
		if c.family == "everyone" {
			p.Knows = append([]peer.ID{}, ids...)
			continue
		}
		buckets := map[int][]peer.ID{}
		for _, q := range ids {
			if q != id {
				buckets[cpl([]byte(id), []byte(q))] = append(buckets[cpl([]byte(id), []byte(q))], q)
			}
		}
		for _, b := range buckets {
			if len(b) > c.k {
				// a full bucket holds the K peers nearest to the owner
				b = sim.SortByDistance(b, string(id))
				// SortByDistance hashes the key: distance to the owner's kad id = sha256(id)
				b = b[:c.k]
			}
			p.Knows = append(p.Knows, b...)
		}
	}
	return w, ids
}

func c02Configs(tier string) []vmc.Cfg {
	type kab struct{ k, a, b int }
	kabs := []kab{{2, 2, 1}, {3, 3, 2}, {2, 1, 3}} // the last one: beta > K (more answers required than peers returned)
	keys := []string{"000", "011", "101", "110"}
	if tier == "thorough" {
		kabs = []kab{{1, 1, 1}, {2, 1, 1}, {2, 2, 1}, {2, 2, 2}, {3, 2, 2}, {3, 3, 3}, {2, 3, 1}, {1, 1, 2}, {2, 1, 3}, {2, 2, 3}}
		keys = []string{"000", "001", "010", "011", "100", "101", "110", "111"}
	}
	var out []vmc.Cfg
	for mask := 1; mask < 256; mask++ {
		for _, dense := range []bool{false, true} {
			if dense && (tier != "thorough" || mask&3 == 0) {
				continue
			}
			n := len(c02Peers(c02cfg{mask: mask, dense: dense}))
			var seedSets [][]int
			if tier == "thorough" {
				for i := 0; i < n; i++ {
					seedSets = append(seedSets, []int{i})
					for j := i + 1; j < n; j++ {
						seedSets = append(seedSets, []int{i, j})
					}
				}
			} else {
				seedSets = [][]int{{0}, {n - 1}}
				if n > 2 {
					seedSets = append(seedSets, []int{0, n - 1}, []int{n / 2})
				}
			}
			for _, kb := range kabs {
				for _, fam := range []string{"kbucket", "everyone"} {
					for _, key := range keys {
						for _, sd := range seedSets {
							c := c02cfg{mask: mask, dense: dense, k: kb.k, a: kb.a, b: kb.b, family: fam, seeds: sd, keyCell: key}
							out = append(out, vmc.Cfg{Name: fmt.Sprintf("net%02x%v/k%da%db%d/%s/key%s/seeds%v", mask, dense, kb.k, kb.a, kb.b, fam, key, sd), Data: c})
						}
					}
				}
			}
		}
	}
	return out
}

func TestVMC_C02(t *testing.T) {
	vmc.Main(t, vmc.Harness{ID: "C02", Configs: c02Configs, Run: c02Run, Bubble: true})
}

func c02Run(x *vmc.X, cfg vmc.Cfg) {
	c := cfg.Data.(c02cfg)
	w, ids := c02World(c)
	key := kid.KeyWithPrefix("v", c.keyCell, 0)
	l, err := newLH(x, w, lhParams{k: c.k, alpha: c.a, beta: c.b})
	if err != nil {
		x.Failf("C02/setup", "%v", err)
		return
	}
	defer l.close()
	var seedIDs []peer.ID
	for _, i := range c.seeds {
		seedIDs = append(seedIDs, ids[i])
	}
	table := l.seed(seedIDs)
	if len(table) == 0 {
		return
	}
	seeds := sim.SortByDistance(table, key)
	if len(seeds) > c.k {
		seeds = seeds[:c.k]
	}
	resCh := make(chan lookupOutcome, 1)
	go func() {
		ps, err := l.d.GetClosestPeers(l.ctx, key)
		resCh <- lookupOutcome{ps, err}
	}()
	tr := newC01Track(x, l, c.k, key, seeds)
	tr.beta = c.b
	l.onStep = tr.step
	l.stateKey = tr.stateKey
	var out *lookupOutcome
	if !l.runToCompletion("C02", func() bool {
		select {
		case r := <-resCh:
			out = &r
			return true
		default:
			return false
		}
	}, 300) {
		return
	}
	if !tr.final(out) {
		return
	}
	if out.err != nil {
		x.Failf("C02/error", "lookup returned %v", out.err)
		return
	}
	// (a) the globally nearest peer comes first; with full knowledge the K globally nearest
	global := sim.SortByDistance(ids, key)
	if len(out.peers) == 0 || out.peers[0] != global[0] {
		x.Failf("C02/not-converged", "result %v does not start with the globally nearest peer %s (network %v)", w.Names(out.peers), w.Name(global[0]), w.Names(global))
		return
	}
	if c.family == "everyone" {
		want := global
		if len(want) > c.k {
			want = want[:c.k]
		}
		if fmt.Sprint(w.Names(out.peers)) != fmt.Sprint(w.Names(want)) {
			x.Failf("C02/not-the-k-nearest", "every peer knows the whole network, result %v, the K globally nearest are %v", w.Names(out.peers), w.Names(want))
			return
		}
	}
	// (c) every returned peer was sent the request at least once (follow-up included)
	asked := map[peer.ID]bool{}
	for _, e := range l.net.Log {
		if e.What == "req" {
			asked[e.To] = true
		}
	}
	for _, p := range out.peers {
		if !asked[p] {
			x.Failf("C02/returned-peer-never-asked", "returned peer %s was never sent the request", w.Name(p))
			return
		}
	}
	x.Obs("result %v", w.Names(out.peers))
	x.Outcome("%v", w.Names(out.peers))
}

// ---- part "faults": worlds with failing and slow-dialling peers (no lying peers) --------------------

func c02FaultConfigs(tier string) []vmc.Cfg {
	var out []vmc.Cfg
	type kab struct{ k, a, b int }
	kabs := []kab{{2, 1, 2}, {3, 3, 2}, {3, 1, 2}, {2, 2, 1}}
	if tier == "thorough" {
		kabs = append(kabs, kab{4, 1, 2}, kab{4, 3, 2}, kab{3, 2, 3})
	}
	faults := []string{sim.BDialFail, sim.BReqFail, sim.BSilent, sim.BSlowDial}
	ns := []int{4, 5}
	for _, n := range ns {
		for _, kb := range kabs {
			for _, kn := range []string{"chain", "full", "star"} {
				for i := -1; i < n; i++ {
					for _, f1 := range faults {
						for j := i; j < n; j++ {
							for _, f2 := range faults {
								if i < 0 && (j > i+1 || f1 != faults[0] || f2 != faults[0]) {
									continue
								}
								as := make([]string, n)
								for q := range as {
									as[q] = sim.BHonest
								}
								if i >= 0 {
									as[i] = f1
									if j > i {
										as[j] = f2
									} else if f2 != faults[0] {
										continue
									}
								}
								for _, sd := range [][]int{{0}, {n - 1}, {0, n - 1}, {1, 2}} {
									c := c01cfg{n: n, k: kb.k, a: kb.a, b: kb.b, behaviours: as, knowledge: kn, seeds: sd, keyCell: "000", c02: true}
									out = append(out, vmc.Cfg{Name: fmt.Sprintf("faults/n%d/k%da%db%d/%s/%s/seeds%v", n, kb.k, kb.a, kb.b, kn, strings.Join(as, ","), sd), Data: c})
								}
							}
						}
					}
				}
			}
		}
	}
	return out
}

func TestVMC_C02faults(t *testing.T) {
	vmc.Main(t, vmc.Harness{ID: "C02", Configs: c02FaultConfigs, Run: c01Run, Bubble: true})
}
