//go:build verif

package dht

import (
	"fmt"
	"strconv"
	"strings"
	"testing"
	"testing/synctest"
	"time"

	recpb "github.com/libp2p/go-libp2p-record/pb"
	"github.com/libp2p/go-libp2p/core/peer"
	"google.golang.org/protobuf/proto"

	"github.com/libp2p/go-libp2p-kad-dht/internal/vmc"
	"github.com/libp2p/go-libp2p-kad-dht/internal/vmc/jds"
	"github.com/libp2p/go-libp2p-kad-dht/internal/vmc/kid"
	"github.com/libp2p/go-libp2p-kad-dht/internal/vmc/sim"
	pb "github.com/libp2p/go-libp2p-kad-dht/pb"
)

// C05 part "node": histories of local PutValue, remote PUT_VALUE / GET_VALUE on inbound streams,
// local reads and clock advances on a real server-mode IpfsDHT (value GC running, maximum record
// age A). Every value carries the index of the operation that wrote it, so a served record names
// the operation that stored it. Invariants checked after every step:
//   served records are valid, filed under the requested key and were accepted at most A ago;
//   after an acknowledged put of sequence s, every read within A of it yields a sequence >= s;
//   a local PutValue is refused when a better unexpired value is stored, and an accepted one is
//   readable at once; invalid and mis-keyed remote records are never acknowledged nor served.

const c05nAge = 1000 * time.Second

type c05ncfg struct {
	depth int
	gc    time.Duration
}

func c05nConfigs(tier string) []vmc.Cfg {
	d := 4
	if tier == "thorough" {
		d = 5
	}
	var out []vmc.Cfg
	for _, gc := range []time.Duration{c05nAge / 3, 24 * time.Hour} {
		out = append(out, vmc.Cfg{Name: fmt.Sprintf("node/depth%d/gc=%v", d, gc), Data: c05ncfg{d, gc}})
	}
	return out
}

func TestVMC_C05node(t *testing.T) {
	vmc.Main(t, vmc.Harness{ID: "C05", Configs: c05nConfigs, Run: c05nRun, Bubble: true, ShardSubtree: true})
}

func c05nRun(x *vmc.X, cfg vmc.Cfg) {
	c := cfg.Data.(c05ncfg)
	w := sim.NewWorld(lhSelf, 3)
	a := kid.Peer("000", 0)
	w.Add("a", a, sim.BHonest)
	w.Far = kid.Peer("111", 3)
	w.Peers[a].Knows = []peer.ID{a}
	store := jds.New()
	l, err := newLH(x, w, lhParams{k: 3, alpha: 1, beta: 1, mode: ModeServer, modeSet: true,
		opts: []Option{Datastore(store), MaxRecordAge(c05nAge), ValueGCInterval(c.gc)}})
	if err != nil {
		x.Failf("C05/setup", "%v", err)
		return
	}
	defer l.close()
	l.net.Instant = true
	l.seed([]peer.ID{a})
	env := &c09env{x: x, l: l}
	key := kid.KeyWithPrefix("v", "000", 0)
	other := kid.KeyWithPrefix("v", "000", 1)
	t0 := time.Now()
	now := func() time.Duration { return time.Since(t0) }

	type acc struct {
		seq int
		at  time.Duration
	}
	accepted := map[string]acc{} // payload -> accepted record (payload names the writing op)
	var acks []acc               // acknowledged puts
	var hist []string
	check := func(what string, rec *recpb.Record) bool {
		t := now()
		if rec == nil {
			for _, k := range acks {
				if t-k.at <= c05nAge-time.Second { // strictly inside the validity of an acknowledged put
					// some record of sequence >= k.seq must be readable, unless a better one replaced it and aged out... a better one
					// is itself an acknowledged put at a later time, so the newest sufficiently fresh ack decides
					x.Failf("C05/node/acked-put-not-readable", "%v: %s returned no record at %v although a put of sequence %d was acknowledged at %v (max age %v)", hist, what, t, k.seq, k.at, c05nAge)
					return false
				}
			}
			return true
		}
		if string(rec.GetKey()) != key {
			x.Failf("C05/node/served-miskeyed", "%v: %s served a record filed under another key", hist, what)
			return false
		}
		v := string(rec.GetValue())
		i := strings.IndexByte(v, ':')
		seq, perr := strconv.Atoi(v[:max(i, 0)])
		if i < 0 || perr != nil || sim.Validator().Validate(key, rec.GetValue()) != nil {
			x.Failf("C05/node/served-invalid", "%v: %s served %q, which the validator rejects", hist, what, v)
			return false
		}
		ac, ok := accepted[v[i+1:]]
		if !ok {
			x.Failf("C05/node/served-unaccepted", "%v: %s served %q, which no acknowledged operation stored", hist, what, v)
			return false
		}
		if t-ac.at > c05nAge {
			x.Failf("C05/node/served-expired", "%v: %s served %q at %v, accepted at %v: older than the maximum age %v", hist, what, v, t, ac.at, c05nAge)
			return false
		}
		for _, k := range acks {
			if t-k.at <= c05nAge && seq < k.seq {
				x.Failf("C05/node/downgraded", "%v: %s served sequence %d at %v although a put of sequence %d was acknowledged at %v", hist, what, seq, t, k.seq, k.at)
				return false
			}
		}
		return true
	}
	localRead := func() (*recpb.Record, bool) {
		rec, err := l.d.getLocal(l.ctx, key)
		if err != nil {
			x.Failf("C05/node/local-read-error", "%v: %v", hist, err)
			return nil, false
		}
		return rec, true
	}
	bestFresh := func() int {
		b := 0
		for _, k := range acks {
			if now()-k.at <= c05nAge && k.seq > b {
				b = k.seq
			}
		}
		return b
	}
	type op struct {
		name string
		run  func(idx int) bool
	}
	var ops []op
	var lastLocal []byte
	lastLocalSeq := 0
	for s := 1; s <= 3; s++ {
		s := s
		ops = append(ops, op{fmt.Sprintf("localPut(%d)", s), func(idx int) bool {
			pay := fmt.Sprintf("l%d", idx)
			better := bestFresh()
			err := l.d.PutValue(l.ctx, key, sim.Val(s, pay))
			synctest.Wait()
			if err == nil {
				accepted[pay] = acc{s, now()}
				acks = append(acks, acc{s, now()})
				lastLocal, lastLocalSeq = sim.Val(s, pay), s
				if s < better {
					x.Failf("C05/node/local-put-not-refused", "%v: PutValue of sequence %d succeeded although sequence %d was acknowledged less than the maximum age ago", hist, s, better)
					return false
				}
				rec, ok := localRead()
				if !ok {
					return false
				}
				if rec == nil {
					x.Failf("C05/node/acked-put-not-readable", "%v: PutValue returned nil but the record is not readable", hist)
					return false
				}
				return check("local read after PutValue", rec)
			}
			if s > better && better >= 0 && !strings.Contains(err.Error(), "older value") && !strings.Contains(err.Error(), "old record") {
				// a refusal needs a better stored value; other errors would be network errors (the world is honest)
				x.Failf("C05/node/local-put-error", "%v: PutValue(seq %d) failed: %v (best fresh acknowledged sequence %d)", hist, s, err, better)
				return false
			}
			if s > better {
				x.Failf("C05/node/local-put-refused-without-better", "%v: PutValue(seq %d) refused (%v) although no better value was acknowledged within the maximum age (best %d)", hist, s, err, better)
				return false
			}
			return true
		}})
	}
	// re-publishing the identical value (what a republisher does): acknowledged, so readable for A from now
	ops = append(ops, op{"localPut(again)", func(idx int) bool {
		if lastLocal == nil {
			return true
		}
		better := bestFresh()
		err := l.d.PutValue(l.ctx, key, lastLocal)
		synctest.Wait()
		if err == nil {
			pay := string(lastLocal[strings.IndexByte(string(lastLocal), ':')+1:])
			accepted[pay] = acc{lastLocalSeq, now()}
			acks = append(acks, acc{lastLocalSeq, now()})
			rec, ok := localRead()
			if !ok {
				return false
			}
			if rec == nil {
				x.Failf("C05/node/acked-put-not-readable", "%v: PutValue returned nil but the record is not readable", hist)
				return false
			}
			return check("local read after re-publishing the same value", rec)
		}
		if lastLocalSeq > better {
			x.Failf("C05/node/local-put-refused-without-better", "%v: re-publishing sequence %d refused (%v) although no better value was acknowledged within the maximum age (best %d)", hist, lastLocalSeq, err, better)
			return false
		}
		return true
	}})
	ops = append(ops, op{"localPut(bad)", func(idx int) bool {
		if err := l.d.PutValue(l.ctx, key, sim.Val(9, "bad")); err == nil {
			x.Failf("C05/node/invalid-local-put-accepted", "%v: PutValue of a value the validator rejects succeeded", hist)
			return false
		}
		return true
	}})
	remotePut := func(name string, mk func(idx int) (*pb.Message, int, string)) op {
		return op{name, func(idx int) bool {
			m, seq, pay := mk(idx)
			b, _ := proto.Marshal(m)
			replies, _, _, handled, _ := env.exchange(a, frame(b))
			if !handled {
				x.Failf("C05/node/no-handler", "server mode without a handler")
				return false
			}
			acked := len(replies) == 1 && replies[0].GetType() == pb.Message_PUT_VALUE
			if acked && seq < 0 {
				x.Failf("C05/node/bad-remote-put-acknowledged", "%v: %s was acknowledged", hist, name)
				return false
			}
			if acked {
				accepted[pay] = acc{seq, now()}
				acks = append(acks, acc{seq, now()})
			}
			return true
		}}
	}
	for s := 1; s <= 3; s++ {
		s := s
		ops = append(ops, remotePut(fmt.Sprintf("remotePut(%d)", s), func(idx int) (*pb.Message, int, string) {
			pay := fmt.Sprintf("r%d", idx)
			return &pb.Message{Type: pb.Message_PUT_VALUE, Key: []byte(key), Record: sim.MakeRecord(key, sim.Val(s, pay))}, s, pay
		}))
	}
	ops = append(ops, remotePut("remotePut(bad)", func(idx int) (*pb.Message, int, string) {
		return &pb.Message{Type: pb.Message_PUT_VALUE, Key: []byte(key), Record: sim.MakeRecord(key, sim.Val(9, "bad"))}, -1, ""
	}))
	ops = append(ops, remotePut("remotePut(miskeyed)", func(idx int) (*pb.Message, int, string) {
		return &pb.Message{Type: pb.Message_PUT_VALUE, Key: []byte(key), Record: sim.MakeRecord(other, sim.Val(8, "m"))}, -1, ""
	}))
	// a record that carries no key of its own, in a message that names the key (seed C05-h): it is not a record
	// for that key, so it must be refused like any other mis-keyed record; its value would win the selection
	ops = append(ops, remotePut("remotePut(record key unset)", func(idx int) (*pb.Message, int, string) {
		rec := sim.MakeRecord(key, sim.Val(3, "u"))
		rec.Key = nil
		return &pb.Message{Type: pb.Message_PUT_VALUE, Key: []byte(key), Record: rec}, -1, ""
	}))
	ops = append(ops, op{"remoteGet", func(idx int) bool {
		b, _ := proto.Marshal(&pb.Message{Type: pb.Message_GET_VALUE, Key: []byte(key)})
		replies, _, reset, handled, _ := env.exchange(a, frame(b))
		if !handled || reset || len(replies) != 1 {
			x.Failf("C05/node/get-not-answered", "%v: GET_VALUE got %d replies (reset=%v)", hist, len(replies), reset)
			return false
		}
		return check("remote GET_VALUE", replies[0].GetRecord())
	}})
	ops = append(ops, op{"localGet", func(idx int) bool {
		rec, ok := localRead()
		return ok && check("local read", rec)
	}})
	ops = append(ops, op{"clock+A/2+1ns", func(idx int) bool { time.Sleep(c05nAge/2 + 1); synctest.Wait(); return true }})
	ops = append(ops, op{"clock+A/2-1s", func(idx int) bool { time.Sleep(c05nAge/2 - time.Second); synctest.Wait(); return true }})

	for d := 0; d < c.depth; d++ {
		i := x.Choose(len(ops)+1, vmc.Free, "op")
		if i == len(ops) {
			break
		}
		time.Sleep(time.Second)
		hist = append(hist, ops[i].name)
		x.Obs("%s", ops[i].name)
		if !ops[i].run(d) {
			return
		}
	}
	// final reads, both ways
	rec, ok := localRead()
	if !ok || !check("final local read", rec) {
		return
	}
	x.Eval(len(acks) > 0)
	x.Outcome("acks=%d", len(acks))
}
