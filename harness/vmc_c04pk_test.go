//go:build verif

package dht

import (
	"context"
	"encoding/base64"
	"fmt"
	"strings"
	"testing"

	record "github.com/libp2p/go-libp2p-record"
	ci "github.com/libp2p/go-libp2p/core/crypto"
	"github.com/libp2p/go-libp2p/core/peer"
	"github.com/libp2p/go-libp2p/core/routing"

	"github.com/libp2p/go-libp2p-kad-dht/internal/vmc"
	"github.com/libp2p/go-libp2p-kad-dht/internal/vmc/kid"
	"github.com/libp2p/go-libp2p-kad-dht/internal/vmc/sim"
	pb "github.com/libp2p/go-libp2p-kad-dht/pb"
)

// C04 part "pubkey": GetPublicKey on the standard client. The target peer's id is the hash of a
// fixed RSA-2048 key; the target itself (asked directly and reached by the lookup) and two other
// responders each hold, under /pk/<target>, one of: the true key, another well-formed key, bytes
// that are no key, the true key filed under another peer's /pk key, an Ed25519 key, nothing.
// Every arrival order. Oracle: a key that is returned hashes to the target's id; an error is
// returned only if no processed answer carried the true key under the right record key.

const (
	c04pkRSA0 = "CAASpgIwggEiMA0GCSqGSIb3DQEBAQUAA4IBDwAwggEKAoIBAQCnzYpXz7tjF6KfwTLyViGgQBhjqbYBpqxjzaVPC+zpahLi0f/SMdPgtCFmisGfccC5Cak+eL4RRZLojGph+CDtkMbm0aY4cRJka5g/8oe368fcHeTYL5R+/0VwqnIdEzUx82HqHoidvhXSCAMtdV59+dZUm0AsQs5toLH7DYqVPM77JZFgOK2nCp8mXLz5XVxltJMQpaBXQ5F7Hsf2v2vkKe6fwoQNmMz3sBguV02pmzG7y6dwMZPrV+c4Aq2VKwohmCaqAe4Yba6/iy2NBuUDkPawoHBWIVdxkanblgofnqZxfAMLJqFoLIUIThEGT7EzpxclqWFuT2Qff5AjEpgdAgMBAAE="
	c04pkRSA1 = "CAASpgIwggEiMA0GCSqGSIb3DQEBAQUAA4IBDwAwggEKAoIBAQCnTgLm9acaylR9tzAuv06wykZLUnvcKlEuNO1NNwGsMvvw6szJPuV161Qbau91bHlZShomy9D8crBA/cYOxQl/lxxUmnZK6pO47Bm7XiN2dOwecaKMrDUTvzPVWAzTq4FqaOm9+66hgUuKL54TnmgW/xhBDq2Jn/Betb4ThmDIlOlNie2mq8TFKsr2SqTatyMKI/dR7nHGbjjj/34tNnZXCCJNkAfVOiRYCsfaz2AJU81IK4PFB6H+VIxYh6MMXcErophoLfK+EGRtU5G11uKmlfVWJ4XOQTKzOEx393oeQWL+jUWcGdrbYEW1mlWqKVrQe46NutHMSqFB8BXK4cFbAgMBAAE="
	c04pkED   = "CAESIHTlX5t315YrgEh9t/pygcPv1qOxbN5QFwIjWtsK54uw"
)

var c04pkKinds = []string{"true", "other", "garbage", "miskeyed", "ed", "none"}

type c04pkCfg struct {
	node  string // what the target itself holds
	resp  [2]string
	local string // none | peerstore
	inRT  bool   // the target is a routing-table member (asked by the lookup from the start)
}

func c04pkConfigs(tier string) []vmc.Cfg {
	var out []vmc.Cfg
	for _, node := range c04pkKinds {
		for _, r0 := range c04pkKinds {
			for _, r1 := range c04pkKinds {
				for _, inRT := range []bool{false, true} {
					if tier != "thorough" && inRT && !(r0 == "none" || r1 == "none" || node == "true") {
						continue
					}
					c := c04pkCfg{node: node, resp: [2]string{r0, r1}, local: "none", inRT: inRT}
					out = append(out, vmc.Cfg{Name: fmt.Sprintf("pubkey/node-%s/%s,%s/inRT=%v", node, r0, r1, inRT), Data: c})
				}
			}
		}
	}
	out = append(out, vmc.Cfg{Name: "pubkey/peerstore", Data: c04pkCfg{node: "other", resp: [2]string{"other", "garbage"}, local: "peerstore"}})
	out = append(out, vmc.Cfg{Name: "pubkey/inline-id", Data: c04pkCfg{node: "none", resp: [2]string{"other", "none"}, local: "inline"}})
	return out
}

func TestVMC_C04pubkey(t *testing.T) {
	vmc.Main(t, vmc.Harness{ID: "C04", Configs: c04pkConfigs, Run: c04pkRun, Bubble: true})
}

func c04pkKey(b64 string) (ci.PubKey, []byte, peer.ID) {
	raw, err := base64.StdEncoding.DecodeString(b64)
	if err != nil {
		panic(err)
	}
	pk, err := ci.UnmarshalPublicKey(raw)
	if err != nil {
		panic(err)
	}
	id, err := peer.IDFromPublicKey(pk)
	if err != nil {
		panic(err)
	}
	return pk, raw, id
}

func c04pkRun(x *vmc.X, cfg vmc.Cfg) {
	c := cfg.Data.(c04pkCfg)
	truePk, trueRaw, target := c04pkKey(c04pkRSA0)
	_, otherRaw, otherID := c04pkKey(c04pkRSA1)
	_, edRaw, edID := c04pkKey(c04pkED)
	if c.local == "inline" {
		target = edID
	}
	w := sim.NewWorld(lhSelf, 3)
	a, b := kid.Peer("000", 0), kid.Peer("100", 0)
	w.Add("a", a, sim.BHonest)
	w.Add("b", b, sim.BHonest)
	w.Add("T", target, sim.BHonest)
	w.Far = kid.Peer("111", 3)
	for _, id := range []peer.ID{a, b, target} {
		w.Peers[id].Knows = []peer.ID{a, b, target}
	}
	pkkey := routing.KeyForPublicKey(target)
	set := func(id peer.ID, kind string) {
		p := w.Peers[id]
		switch kind {
		case "true":
			p.Records[pkkey] = trueRaw
		case "other":
			p.Records[pkkey] = otherRaw
		case "garbage":
			p.Records[pkkey] = []byte{1, 2, 3, 4}
		case "miskeyed":
			p.Records[pkkey] = trueRaw
			p.RecordKey[pkkey] = routing.KeyForPublicKey(otherID)
		case "ed":
			p.Records[pkkey] = edRaw
		}
	}
	set(target, c.node)
	set(a, c.resp[0])
	set(b, c.resp[1])
	kinds := map[string]string{"T": c.node, "a": c.resp[0], "b": c.resp[1]}
	val := record.NamespacedValidator{"pk": record.PublicKeyValidator{}, "v": sim.SeqValidator{}}
	l, err := newLH(x, w, lhParams{k: 3, alpha: 3, beta: 3, opts: []Option{Validator(val)}})
	if err != nil {
		x.Failf("C04/setup", "%v", err)
		return
	}
	defer l.close()
	seeds := []peer.ID{a, b}
	if c.inRT {
		seeds = append(seeds, target)
	}
	l.seed(seeds)
	if c.local == "peerstore" {
		if err := l.h.Peerstore().AddPubKey(target, truePk); err != nil {
			x.Failf("C04/setup", "%v", err)
			return
		}
	}
	ctx, cancel := context.WithCancel(l.ctx)
	defer cancel()
	type res struct {
		pk  ci.PubKey
		err error
	}
	done := make(chan res, 1)
	go func() {
		pk, err := l.d.GetPublicKey(ctx, target)
		done <- res{pk, err}
	}()
	var r *res
	suppliedTrue := false
	l.onDeliver = func(p *sim.Pending) {
		if p.Kind == "req" && p.Msg != nil && p.Msg.GetType() == pb.Message_GET_VALUE && string(p.Msg.GetKey()) == pkkey {
			if kinds[w.Name(p.To)] == "true" {
				suppliedTrue = true
			}
		}
	}
	ok := l.runToCompletion("C04/pubkey", func() bool {
		select {
		case v := <-done:
			r = &v
			return true
		default:
			return false
		}
	}, 60)
	if !ok || r == nil {
		return
	}
	if r.err == nil {
		id, err := peer.IDFromPublicKey(r.pk)
		if err != nil || id != target {
			x.Failf("C04/pubkey-mismatch", "node=%s responders=%v: GetPublicKey returned a key that hashes to %s (err %v), not to the requested peer", c.node, c.resp, id, err)
			return
		}
	} else {
		if suppliedTrue {
			x.Failf("C04/pubkey-not-found-although-supplied", "node=%s responders=%v inRT=%v: GetPublicKey failed (%v) although a processed answer carried the peer's true key", c.node, c.resp, c.inRT, r.err)
			return
		}
		if c.local != "none" {
			x.Failf("C04/pubkey-local-ignored", "%s: GetPublicKey failed (%v) although the key is available locally", c.local, r.err)
			return
		}
	}
	anyTrue := c.node == "true" || c.resp[0] == "true" || c.resp[1] == "true"
	x.Eval(anyTrue || strings.Contains(c.node+c.resp[0]+c.resp[1], "other"))
	x.Outcome("ok=%v", r.err == nil)
}
