//go:build verif

package dual

import (
	"context"
	"fmt"
	"sort"
	"strings"
	"testing"
	"testing/synctest"
	"time"

	"github.com/ipfs/go-cid"
	"github.com/libp2p/go-libp2p/core/host"
	"github.com/libp2p/go-libp2p/core/network"
	"github.com/libp2p/go-libp2p/core/peer"
	"github.com/libp2p/go-libp2p/core/protocol"
	ma "github.com/multiformats/go-multiaddr"
	manet "github.com/multiformats/go-multiaddr/net"

	dht "github.com/libp2p/go-libp2p-kad-dht"
	"github.com/libp2p/go-libp2p-kad-dht/internal/vmc"
	"github.com/libp2p/go-libp2p-kad-dht/internal/vmc/kid"
	"github.com/libp2p/go-libp2p-kad-dht/internal/vmc/sim"
	pb "github.com/libp2p/go-libp2p-kad-dht/pb"
)

// C15: the dual DHT routes writes by WAN liveness, merges reads, and scopes addresses.

const (
	wanProto = "/sim/kad/1.0.0"
	lanProto = "/sim/lan/kad/1.0.0"
)

type dualEnv struct {
	x    *vmc.X
	w    *sim.World
	net  *sim.Net
	h    *sim.Host
	d    *DHT
	step int
}

func newDual(x *vmc.X, hostAddrs []ma.Multiaddr) (*dualEnv, error) {
	self := kid.Peer("0110", 8)
	e := &dualEnv{x: x, w: sim.NewWorld(self, 3)}
	e.net = sim.NewNet(e.w)
	e.h = sim.NewHost(self, hostAddrs...)
	e.h.DialFn = e.net.Dial
	// ProtocolExtension appends to the prefix configured *so far*: a ProtocolPrefix passed through
	// DHTOption would be applied after dual.New's own "/lan" extension and erase it, so the prefix is
	// set per DHT here and the LAN extension re-applied.
	d, err := New(e.h, WanDHTOption(dht.ProtocolPrefix("/sim")), LanDHTOption(dht.ProtocolPrefix("/sim"), dht.ProtocolExtension(LanExtension)),
		DHTOption(dht.BucketSize(3), dht.Concurrency(3), dht.Resiliency(1), dht.DisableAutoRefresh(),
			dht.Validator(sim.Validator()),
			dht.WithCustomMessageSender(func(_ host.Host, protos []protocol.ID) pb.MessageSenderWithDisconnect {
				return e.net.Sender(string(protos[0]))
			})))
	if err != nil {
		e.h.Close()
		return nil, err
	}
	e.d = d
	synctest.Wait()
	return e, nil
}

func (e *dualEnv) close() {
	e.d.Close()
	e.h.Close()
	synctest.Wait()
}

func pubAddr(i int) ma.Multiaddr  { return ma.StringCast(fmt.Sprintf("/ip4/%d.7.0.1/tcp/4001", 30+i)) }
func privAddr(i int) ma.Multiaddr { return ma.StringCast(fmt.Sprintf("/ip4/10.0.%d.1/tcp/4001", i)) }

// addWan / addLan create a simulated peer and make it a member of the respective table.
func (e *dualEnv) addWan(name, cell string, i int) peer.ID {
	id := kid.Peer(cell, 20+i)
	p := e.w.Add(name, id, sim.BAll)
	p.Addrs = []ma.Multiaddr{pubAddr(i)}
	e.h.Peerstore().AddAddrs(id, p.Addrs, time.Hour)
	e.h.AddConn(id, network.DirOutbound, pubAddr(i))
	if ok, err := e.d.WAN.RoutingTable().TryAddPeer(id, true, false); !ok || err != nil {
		e.x.Failf("C15/setup", "WAN table rejected %s: %v", name, err)
	}
	return id
}

func (e *dualEnv) addLan(name, cell string, i int) peer.ID {
	id := kid.Peer(cell, 40+i)
	p := e.w.Add(name, id, sim.BAll)
	p.Addrs = []ma.Multiaddr{privAddr(i)}
	e.h.Peerstore().AddAddrs(id, p.Addrs, time.Hour)
	e.h.AddConn(id, network.DirOutbound, privAddr(i))
	if ok, err := e.d.LAN.RoutingTable().TryAddPeer(id, true, false); !ok || err != nil {
		e.x.Failf("C15/setup", "LAN table rejected %s: %v", name, err)
	}
	return id
}

// run delivers pending events until done() holds; order chosen by the explorer when choose is set.
func (e *dualEnv) run(done func() bool, choose bool) bool {
	for n := 0; n < 300; n++ {
		synctest.Wait()
		if done() {
			return true
		}
		pend := e.net.PendingEvents()
		if len(pend) == 0 {
			time.Sleep(61 * time.Second)
			synctest.Wait()
			if done() {
				return true
			}
			if len(e.net.PendingEvents()) == 0 {
				e.x.Failf("C15/hang", "operation has not returned although nothing is pending")
				return false
			}
			continue
		}
		i := 0
		if choose && len(pend) > 1 {
			labels := make([]string, len(pend))
			for j, p := range pend {
				labels[j] = e.net.Label(p) + "@" + strings.TrimSuffix(strings.TrimPrefix(p.Proto, "/sim"), "/kad/1.0.0")
			}
			i = e.x.Choose(len(pend), vmc.Order, "deliver "+fmt.Sprint(labels))
		}
		e.step++
		time.Sleep(3 * time.Millisecond)
		e.net.Deliver(pend[i])
	}
	e.x.Failf("C15/runaway", "more than 300 deliveries")
	return false
}

func (e *dualEnv) protosOf(t pb.Message_MessageType) map[string]int {
	out := map[string]int{}
	for _, l := range e.net.Log {
		if (l.What == "req" || l.What == "msg") && l.Type == t {
			out[l.Proto]++
		}
	}
	return out
}

type c15cfg struct {
	part string
	a, b int
	s    string
	mask int
}

func c15Configs(tier string) []vmc.Cfg {
	var out []vmc.Cfg
	// "putvalue-refused": the WAN half holds a better value, so the put of an older one is refused by the WAN
	// client; a refused write is still a write that was routed to the WAN and must not spill over to the LAN (seed C15-i)
	for _, op := range []string{"provide", "putvalue", "putvalue-refused"} {
		for wan := 0; wan < 2; wan++ {
			for lan := 0; lan < 2; lan++ {
				out = append(out, vmc.Cfg{Name: fmt.Sprintf("route/%s/wan%d/lan%d", op, wan, lan), Data: c15cfg{part: "route", a: wan, b: lan, s: op}})
			}
		}
	}
	vals := []string{"none", "s1", "s2", "empty-table"}
	for _, wv := range vals {
		for _, lv := range vals {
			out = append(out, vmc.Cfg{Name: fmt.Sprintf("getvalue/wan-%s/lan-%s", wv, lv), Data: c15cfg{part: "getvalue", s: wv + "," + lv}})
		}
	}
	// providers: who reports X / Y: bit0 wan reports X, bit1 lan reports X, bit2 lan reports Y, bit3 wan reports Y, bit4 X stored locally (WAN store),
	// bit5 every provider is reported (and stored) without addresses (known by id only; seed C08-h)
	for m := 0; m < 64; m++ {
		for count := 0; count <= 2; count++ {
			out = append(out, vmc.Cfg{Name: fmt.Sprintf("findproviders/dist%02x/count%d", m, count), Data: c15cfg{part: "findproviders", mask: m, a: count}})
		}
	}
	for m := 0; m < 4; m++ {
		out = append(out, vmc.Cfg{Name: fmt.Sprintf("findpeer/%d", m), Data: c15cfg{part: "findpeer", mask: m}})
	}
	// address alphabet: every subset (quick: of size <=3) as referral addresses / host addresses
	n := len(c15Alphabet)
	maxSize := 3
	if tier == "thorough" {
		maxSize = n // every subset
	}
	for m := 0; m < 1<<n; m++ {
		if bitsSet(m) > maxSize {
			continue
		}
		out = append(out, vmc.Cfg{Name: fmt.Sprintf("referral/addrs%03x", m), Data: c15cfg{part: "referral", mask: m}})
		out = append(out, vmc.Cfg{Name: fmt.Sprintf("hostaddrs/addrs%03x", m), Data: c15cfg{part: "hostaddrs", mask: m}})
	}
	return out
}

func bitsSet(m int) int {
	n := 0
	for ; m > 0; m &= m - 1 {
		n++
	}
	return n
}

var c15Alphabet = []string{
	"/ip4/8.8.8.8/tcp/4001",   // public v4
	"/ip4/10.1.2.3/tcp/4001",  // private
	"/ip4/127.0.0.1/tcp/4001", // loopback
	"/ip4/9.9.9.9/tcp/4001/p2p/QmNnooDu7bfjPFoTZYxMNLWUQJyrVwtbZg5gBMjTezGAJN/p2p-circuit",     // relay via public
	"/ip4/192.168.1.9/tcp/4001/p2p/QmNnooDu7bfjPFoTZYxMNLWUQJyrVwtbZg5gBMjTezGAJN/p2p-circuit", // relay via private
	"/ip6/2001:db8::1/tcp/4001",          // documentation prefix inside 2000::/3
	"/ip6/2606:4700:4700::1111/tcp/4001", // public v6
	"/ip6/fc00::1/tcp/4001",              // unique local
	"/ip6/fe80::1/tcp/4001",              // link local
	"/dns4/example.com/tcp/4001",         // dns
}

func isPublicDirect(a ma.Multiaddr) bool {
	s := a.String()
	if strings.Contains(s, "p2p-circuit") {
		return false
	}
	switch {
	case strings.HasPrefix(s, "/ip4/8.8.8.8"), strings.HasPrefix(s, "/ip6/2001:db8"), strings.HasPrefix(s, "/ip6/2606:"):
		return true
	}
	return false
}

func TestVMC_C15(t *testing.T) {
	vmc.Main(t, vmc.Harness{ID: "C15", Configs: c15Configs, Run: c15Run, Bubble: true})
}

func c15Run(x *vmc.X, cfg vmc.Cfg) {
	c := cfg.Data.(c15cfg)
	hostAddrs := []ma.Multiaddr{ma.StringCast("/ip4/8.8.4.4/tcp/4001"), ma.StringCast("/ip4/10.9.9.9/tcp/4001"), ma.StringCast("/ip4/127.0.0.1/tcp/4001")}
	if c.part == "hostaddrs" {
		hostAddrs = nil
		for i, a := range c15Alphabet {
			if c.mask&(1<<i) != 0 {
				hostAddrs = append(hostAddrs, ma.StringCast(a))
			}
		}
	}
	e, err := newDual(x, hostAddrs)
	if err != nil {
		x.Failf("C15/setup", "%v", err)
		return
	}
	defer e.close()
	ctx, cancel := context.WithCancel(context.Background())
	defer cancel()
	vkey := kid.KeyWithPrefix("v", "000", 0)
	mh := kid.Mh("000", 0)
	pcid := cid.NewCidV1(cid.Raw, mh)
	switch c.part {
	case "route", "hostaddrs":
		wan, lan := c.a == 1, c.b == 1
		if c.part == "hostaddrs" {
			wan, lan = c.mask%2 == 0, true // alternate which DHT is active over the address subsets
			c.s = "provide"
		}
		if wan {
			e.addWan("w1", "000", 1)
			e.addWan("w2", "100", 2)
		}
		if lan {
			e.addLan("l1", "001", 1)
			e.addLan("l2", "101", 2)
		}
		if x.Failed() {
			return
		}
		done := make(chan error, 1)
		refused := c.s == "putvalue-refused"
		if refused {
			c.s = "putvalue"
			first := make(chan error, 1)
			go func() { first <- e.d.PutValue(ctx, vkey, sim.Val(5, "better")) }()
			firstDone := false
			if !e.run(func() bool {
				select {
				case <-first:
					firstDone = true
				default:
				}
				return firstDone && len(e.net.PendingEvents()) == 0
			}, false) {
				return
			}
		}
		if c.s == "provide" {
			go func() { done <- e.d.Provide(ctx, pcid, true) }()
		} else {
			go func() { done <- e.d.PutValue(ctx, vkey, sim.Val(3, "v")) }()
		}
		returned := false
		if !e.run(func() bool {
			select {
			case <-done:
				returned = true
			default:
			}
			return returned && len(e.net.PendingEvents()) == 0
		}, false) {
			return
		}
		t := pb.Message_ADD_PROVIDER
		if c.s == "putvalue" {
			t = pb.Message_PUT_VALUE
		}
		protos := e.protosOf(t)
		wantProto := lanProto
		if wan {
			wantProto = wanProto
		}
		for p := range protos {
			if p != wantProto {
				x.Failf("C15/write-routed-to-wrong-dht", "%s with WAN table %s: %v messages went out on %s", c.s, map[bool]string{true: "non-empty", false: "empty"}[wan], t, p)
				return
			}
		}
		if ((wan && wantProto == wanProto) || (!wan && lan)) && protos[wantProto] == 0 && len(e.h.Addrs()) > 0 && c.part == "route" {
			x.Failf("C15/write-not-sent", "%s with WAN table %s and LAN table %s: no %v message went out on %s", c.s, map[bool]string{true: "non-empty", false: "empty"}[wan], map[bool]string{true: "non-empty", false: "empty"}[lan], t, wantProto)
			return
		}
		// every lookup request too
		for _, l := range e.net.Log {
			if l.What == "req" && l.Proto != wantProto {
				x.Failf("C15/write-lookup-on-wrong-dht", "%s: a %v request went out on %s", c.s, l.Type, l.Proto)
				return
			}
		}
		// payload addresses
		if c.s == "provide" {
			for _, l := range e.net.Log {
				if l.What == "msg" && l.Type == pb.Message_ADD_PROVIDER {
					for _, pp := range l.Msg.GetProviderPeers() {
						for _, a := range pp.Addresses() {
							if l.Proto == wanProto && !manet.IsPublicAddr(a) {
								x.Failf("C15/wan-advertises-non-public", "WAN ADD_PROVIDER carries %s", a)
								return
							}
							if l.Proto == lanProto && manet.IsIPLoopback(a) {
								x.Failf("C15/lan-advertises-loopback", "LAN ADD_PROVIDER carries %s", a)
								return
							}
						}
						if len(pp.Addresses()) == 0 {
							x.Failf("C15/provider-without-address", "ADD_PROVIDER without addresses on %s", l.Proto)
							return
						}
					}
				}
			}
		}
		x.Obs("%s wan=%v lan=%v sent=%v", c.s, wan, lan, protos)
		x.Outcome("%v", protos)
	case "getvalue":
		parts := strings.Split(c.s, ",")
		set := func(kind string, ids ...peer.ID) {
			for i, id := range ids {
				switch kind {
				case "s1":
					e.w.Peers[id].Records[vkey] = sim.Val(1, "one")
				case "s2":
					if i == 0 {
						e.w.Peers[id].Records[vkey] = sim.Val(2, "two")
					}
				}
			}
		}
		if parts[0] != "empty-table" {
			set(parts[0], e.addWan("w1", "000", 1), e.addWan("w2", "100", 2))
		}
		if parts[1] != "empty-table" {
			set(parts[1], e.addLan("l1", "001", 1), e.addLan("l2", "101", 2))
		}
		if x.Failed() {
			return
		}
		type res struct {
			v   []byte
			err error
		}
		done := make(chan res, 1)
		go func() { v, err := e.d.GetValue(ctx, vkey); done <- res{v, err} }()
		var r *res
		if !e.run(func() bool {
			select {
			case rr := <-done:
				r = &rr
			default:
			}
			return r != nil && len(e.net.PendingEvents()) == 0
		}, true) {
			return
		}
		best := func(kind string) int {
			switch kind {
			case "s1":
				return 1
			case "s2":
				return 2
			}
			return -1
		}
		wb, lb := best(parts[0]), best(parts[1])
		switch {
		case wb >= 0:
			if r.err != nil || sim.Seq(r.v) != wb {
				x.Failf("C15/getvalue-not-wan-result", "the WAN lookup finds seq %d but GetValue returned %q, %v (LAN has %d)", wb, r.v, r.err, lb)
				return
			}
		case lb >= 0:
			if r.err != nil || sim.Seq(r.v) != lb {
				x.Failf("C15/getvalue-not-lan-result", "WAN finds nothing, LAN finds seq %d but GetValue returned %q, %v", lb, r.v, r.err)
				return
			}
		default:
			if r.err == nil {
				x.Failf("C15/getvalue-from-nowhere", "nobody has a value but GetValue returned %q", r.v)
				return
			}
		}
		x.Obs("wan=%s lan=%s -> %q err=%v", parts[0], parts[1], r.v, r.err != nil)
		x.Outcome("%q", r.v)
	case "findproviders":
		w1 := e.addWan("w1", "000", 1)
		l1 := e.addLan("l1", "001", 1)
		if x.Failed() {
			return
		}
		X := peer.AddrInfo{ID: kid.Peer("101", 60), Addrs: []ma.Multiaddr{pubAddr(9)}}
		Xl := peer.AddrInfo{ID: X.ID, Addrs: []ma.Multiaddr{privAddr(9)}}
		Y := peer.AddrInfo{ID: kid.Peer("101", 61), Addrs: []ma.Multiaddr{pubAddr(8)}}
		Yl := peer.AddrInfo{ID: Y.ID, Addrs: []ma.Multiaddr{privAddr(8)}}
		if c.mask&32 != 0 {
			X.Addrs, Xl.Addrs, Y.Addrs, Yl.Addrs = nil, nil, nil, nil
		}
		exp := map[peer.ID]bool{}
		if c.mask&1 != 0 {
			e.w.Peers[w1].Providers[string(mh)] = append(e.w.Peers[w1].Providers[string(mh)], X)
			exp[X.ID] = true
		}
		if c.mask&2 != 0 {
			e.w.Peers[l1].Providers[string(mh)] = append(e.w.Peers[l1].Providers[string(mh)], Xl)
			exp[X.ID] = true
		}
		if c.mask&4 != 0 {
			e.w.Peers[l1].Providers[string(mh)] = append(e.w.Peers[l1].Providers[string(mh)], Yl)
			exp[Y.ID] = true
		}
		if c.mask&8 != 0 {
			e.w.Peers[w1].Providers[string(mh)] = append(e.w.Peers[w1].Providers[string(mh)], Y)
			exp[Y.ID] = true
		}
		if c.mask&16 != 0 {
			_ = e.d.WAN.ProviderStore().AddProvider(ctx, mh, X)
			exp[X.ID] = true
		}
		count := c.a
		var got []peer.ID
		done := make(chan struct{})
		ch := e.d.FindProvidersAsync(ctx, pcid, count)
		go func() {
			for ai := range ch {
				got = append(got, ai.ID)
			}
			close(done)
		}()
		closed := false
		if !e.run(func() bool {
			select {
			case <-done:
				closed = true
			default:
			}
			return closed && len(e.net.PendingEvents()) == 0
		}, true) {
			return
		}
		seen := map[peer.ID]int{}
		for _, p := range got {
			seen[p]++
			if seen[p] > 1 {
				x.Failf("C15/provider-repeated", "the dual client yielded a provider %d times (count=%d, distribution %02x)", seen[p], count, c.mask)
				return
			}
			if !exp[p] {
				x.Failf("C15/unreported-provider", "a provider nobody reported was yielded")
				return
			}
		}
		if count > 0 && len(got) > count {
			x.Failf("C15/more-than-count", "%d providers yielded, count=%d", len(got), count)
			return
		}
		if count == 0 && len(seen) != len(exp) {
			x.Failf("C15/provider-missing", "count=0: %d of %d reported providers yielded", len(seen), len(exp))
			return
		}
		if count > 0 && len(got) < count && len(got) < len(exp) {
			x.Failf("C15/fewer-than-available", "only %d providers yielded although %d were reported and count=%d", len(got), len(exp), count)
			return
		}
		x.Obs("yielded %d of %d", len(got), len(exp))
		x.Outcome("%d/%d", len(got), len(exp))
	case "findpeer":
		target := kid.Peer("111", 70)
		w1 := e.addWan("w1", "000", 1)
		l1 := e.addLan("l1", "001", 1)
		if x.Failed() {
			return
		}
		// w1 / l1 know the target with a public / private address
		var want []string
		if c.mask&1 != 0 {
			e.w.Add("target", target, sim.BAll).Addrs = []ma.Multiaddr{pubAddr(7), privAddr(7)}
			e.w.Peers[w1].Knows = []peer.ID{target}
			want = append(want, pubAddr(7).String())
			if c.mask&2 != 0 {
				e.w.Peers[l1].Knows = []peer.ID{target}
				want = append(want, privAddr(7).String())
			}
		} else if c.mask&2 != 0 {
			e.w.Add("target", target, sim.BAll).Addrs = []ma.Multiaddr{privAddr(7)}
			e.w.Peers[l1].Knows = []peer.ID{target}
			want = append(want, privAddr(7).String())
		}
		type res struct {
			ai  peer.AddrInfo
			err error
		}
		done := make(chan res, 1)
		go func() { ai, err := e.d.FindPeer(ctx, target); done <- res{ai, err} }()
		var r *res
		if !e.run(func() bool {
			select {
			case rr := <-done:
				r = &rr
			default:
			}
			return r != nil && len(e.net.PendingEvents()) == 0
		}, false) {
			return
		}
		var got []string
		for _, a := range r.ai.Addrs {
			got = append(got, a.String())
		}
		sort.Strings(got)
		sort.Strings(want)
		if len(want) > 0 && fmt.Sprint(got) != fmt.Sprint(want) {
			x.Failf("C15/findpeer-not-the-union", "FindPeer returned %v, the two DHTs learned %v", got, want)
			return
		}
		if len(want) == 0 && r.err == nil && len(got) > 0 {
			x.Failf("C15/findpeer-from-nowhere", "nobody knows the peer but FindPeer returned %v", got)
			return
		}
		x.Obs("%v", got)
		x.Outcome("%v", got)
	case "referral":
		// w1 refers peer R with the given address subset; does the WAN lookup follow the referral?
		w1 := e.addWan("w1", "000", 1)
		if x.Failed() {
			return
		}
		R := kid.Peer("001", 80)
		var addrs []ma.Multiaddr
		public := false
		for i, a := range c15Alphabet {
			if c.mask&(1<<i) != 0 {
				m := ma.StringCast(a)
				addrs = append(addrs, m)
				if isPublicDirect(m) {
					public = true
				}
			}
		}
		e.w.Add("R", R, sim.BAll).Addrs = addrs
		e.w.Peers[w1].Knows = []peer.ID{R}
		done := make(chan struct{})
		go func() { e.d.WAN.GetClosestPeers(ctx, vkey); close(done) }()
		fin := false
		if !e.run(func() bool {
			select {
			case <-done:
				fin = true
			default:
			}
			return fin && len(e.net.PendingEvents()) == 0
		}, false) {
			return
		}
		contacted := false
		for _, l := range e.net.Log {
			if (l.What == "req" || l.What == "dial") && l.To == R {
				contacted = true
			}
		}
		if contacted != public {
			x.Failf("C15/wan-referral", "referred peer with addresses %v: contacted=%v, has a public non-relay address=%v", addrs, contacted, public)
			return
		}
		for _, a := range e.h.Peerstore().Addrs(R) {
			if !manet.IsPublicAddr(a) {
				x.Failf("C15/wan-stores-non-public-address", "after the WAN exchange the peerstore holds %s for the referred peer", a)
				return
			}
		}
		x.Obs("addrs=%v contacted=%v", addrs, contacted)
		x.Outcome("%v", contacted)
	}
}

// C08 part "dual": the property's last clause (the dual client merges its two sources under the same
// rules without repeating a peer) is decided on the find-providers family of the C15 harness: every
// distribution of two providers over the WAN responder, the LAN responder and the local store, every
// count in 0..2, every order of deliveries of the two lookups.
func c08DualConfigs(tier string) []vmc.Cfg {
	var out []vmc.Cfg
	for _, c := range c15Configs(tier) {
		if c.Data.(c15cfg).part == "findproviders" {
			out = append(out, c)
		}
	}
	return out
}

func TestVMC_C08dual(t *testing.T) {
	vmc.Main(t, vmc.Harness{ID: "C08", Configs: c08DualConfigs, Run: c15Run, Bubble: true})
}
