//go:build verif

package dual

import (
	"context"
	"errors"
	"fmt"
	"strings"
	"testing"
	"testing/synctest"
	"time"

	"github.com/ipfs/go-cid"
	"github.com/libp2p/go-libp2p/core/host"
	"github.com/libp2p/go-libp2p/core/protocol"
	ma "github.com/multiformats/go-multiaddr"

	dht "github.com/libp2p/go-libp2p-kad-dht"
	dhtcfg "github.com/libp2p/go-libp2p-kad-dht/internal/config"
	"github.com/libp2p/go-libp2p-kad-dht/internal/vmc"
	"github.com/libp2p/go-libp2p-kad-dht/internal/vmc/kid"
	"github.com/libp2p/go-libp2p-kad-dht/internal/vmc/sim"
	pb "github.com/libp2p/go-libp2p-kad-dht/pb"
)

// C14 (dual DHT): constructor failure points (nothing of the WAN DHT may survive a failing LAN
// DHT) and Close at every quiescent instant of an in-flight operation that spans both DHTs.

type c14dcfg struct {
	kind string // ctor | close
	fail string
	op   string
}

func c14dConfigs(tier string) []vmc.Cfg {
	var out []vmc.Cfg
	for _, f := range []string{"wan-option", "lan-option", "lan-invalid-mode", "lan-subscribe", "wan-subscribe", "bad-option"} {
		out = append(out, vmc.Cfg{Name: "ctor/" + f, Data: c14dcfg{kind: "ctor", fail: f}})
	}
	for _, op := range []string{"none", "provide", "findprov", "getvalue", "putvalue", "findpeer", "closest-lan"} {
		out = append(out, vmc.Cfg{Name: "close/" + op, Data: c14dcfg{kind: "close", op: op}})
	}
	return out
}

func TestVMC_C14dual(t *testing.T) {
	vmc.Main(t, vmc.Harness{ID: "C14", Configs: c14dConfigs, Run: c14dRun, Bubble: true})
}

func c14dLeaks() []string {
	var real []string
	for _, g := range vmc.LeakedGoroutines() {
		if strings.Contains(g, "pstoremem") || strings.Contains(g, "synctest.") || strings.Contains(g, "c14d") || strings.Contains(g, "waitThenClose") {
			continue
		}
		real = append(real, g)
	}
	return real
}

func c14dRun(x *vmc.X, cfg vmc.Cfg) {
	c := cfg.Data.(c14dcfg)
	self := kid.Peer("0110", 8)
	w := sim.NewWorld(self, 3)
	net := sim.NewNet(w)
	h := sim.NewHost(self, pubAddr(0), privAddr(0))
	h.DialFn = net.Dial
	bus := &sim.CountingBus{Bus: h.EventBus()}
	h.SetEventBus(bus)
	hostClosed := false
	defer func() {
		if !hostClosed {
			h.Close()
		}
	}()
	injected := errors.New("c14d: injected option failure")
	bad := func(*dhtcfg.Config) error { return injected }
	opts := []Option{WanDHTOption(dht.ProtocolPrefix("/sim")), LanDHTOption(dht.ProtocolPrefix("/sim"), dht.ProtocolExtension(LanExtension)),
		DHTOption(dht.BucketSize(3), dht.Concurrency(3), dht.Resiliency(1), dht.DisableAutoRefresh(), dht.Validator(sim.Validator()),
			dht.WithCustomMessageSender(func(_ host.Host, protos []protocol.ID) pb.MessageSenderWithDisconnect { return net.Sender(string(protos[0])) }))}
	switch c.fail {
	case "wan-option":
		opts = append(opts, WanDHTOption(bad))
	case "lan-option":
		opts = append(opts, LanDHTOption(bad))
	case "lan-invalid-mode":
		// (with a WAN DHT that is not a client New appends Mode(ModeServer) to the LAN options)
		opts = append(opts, WanDHTOption(dht.Mode(dht.ModeClient)), LanDHTOption(dht.Mode(dht.ModeOpt(17))))
	case "wan-subscribe":
		bus.FailAt = 1
	case "lan-subscribe":
		bus.FailAt = 2
	case "bad-option":
		opts = append(opts, func(*config) error { return injected })
	}
	if c.kind == "ctor" {
		d, err := New(h, opts...)
		synctest.Wait()
		if err == nil {
			x.Failf("C14/dual/ctor-no-error", "New succeeded although %s was injected (Subscribe calls seen: %d)", c.fail, bus.Calls())
			d.Close()
			return
		}
		time.Sleep(time.Second)
		synctest.Wait()
		if left := c14dLeaks(); len(left) > 0 {
			x.Failf("C14/dual/ctor-leak/"+c.fail, "New failed (%v) and left %d goroutine(s): %v", err, len(left), left)
		}
		if n := bus.Open(); n != 0 {
			x.Failf("C14/dual/ctor-subscription-left/"+c.fail, "New failed (%v) and left %d event bus subscription(s) open", err, n)
		}
		if n := h.NotifieeCount(); n != 0 {
			x.Failf("C14/dual/ctor-notifiee-left/"+c.fail, "New failed (%v) and left %d network notifiee(s)", err, n)
		}
		x.Eval(true)
		x.Outcome("%s -> error", c.fail)
		return
	}
	d, err := New(h, opts...)
	if err != nil {
		x.Failf("C14/setup", "%v", err)
		return
	}
	synctest.Wait()
	e := &dualEnv{x: x, w: w, net: net, h: h, d: d}
	closeStarted, closeReturned := false, false
	defer func() {
		if !closeStarted || closeReturned {
			d.Close()
		}
	}()
	e.addWan("w0", "000", 0)
	e.addWan("w1", "100", 1)
	e.addLan("l0", "001", 0)
	e.addLan("l1", "101", 1)
	if x.Failed() {
		return
	}
	mhk := kid.Mh("000", 0)
	pcid := cid.NewCidV1(cid.Raw, mhk)
	vkey := kid.KeyWithPrefix("v", "000", 0)
	ctx, cancelOp := context.WithCancel(context.Background())
	defer cancelOp()
	doneCh := make(chan string, 1)
	opRunning := false
	run := func(f func() string) {
		opRunning = true
		go func() { doneCh <- f() }()
	}
	switch c.op {
	case "provide":
		run(func() string { return fmt.Sprint(d.Provide(ctx, pcid, true)) })
	case "findprov":
		run(func() string {
			n := 0
			for range d.FindProvidersAsync(ctx, pcid, 0) {
				n++
			}
			return fmt.Sprint(n)
		})
	case "getvalue":
		run(func() string { _, err := d.GetValue(ctx, vkey); return fmt.Sprint(err) })
	case "putvalue":
		run(func() string { return fmt.Sprint(d.PutValue(ctx, vkey, sim.Val(3, "mine"))) })
	case "findpeer":
		run(func() string { _, err := d.FindPeer(ctx, kid.Peer("111", 3)); return fmt.Sprint(err) })
	case "closest-lan":
		run(func() string { _, err := d.LAN.GetClosestPeers(ctx, vkey); return fmt.Sprint(err) })
	}
	result := ""
	opDone := !opRunning
	poll := func() {
		if opDone {
			return
		}
		select {
		case result = <-doneCh:
			opDone = true
		default:
		}
	}
	steps := 0
	var delivered []string
	for {
		synctest.Wait()
		poll()
		pend := net.PendingEvents()
		labels := make([]string, len(pend))
		for i, p := range pend {
			labels[i] = net.Label(p) + "@" + strings.TrimSuffix(strings.TrimPrefix(p.Proto, "/sim"), "/kad/1.0.0")
		}
		n := len(pend)
		if steps > 60 {
			x.Failf("C14/runaway", "more than 60 steps")
			return
		}
		if n > 0 && x.Seen(fmt.Sprintf("%v|%v|%v", sortedCopy(delivered), labels, opDone)) {
			return
		}
		i := x.Choose(n+1, vmc.Order, "deliver "+fmt.Sprint(labels)+" [close]")
		if i < n {
			steps++
			delivered = append(delivered, labels[i])
			time.Sleep(7 * time.Millisecond)
			net.Deliver(pend[i])
			continue
		}
		break
	}
	x.Obs("close after %d steps, op done=%v", steps, opDone)
	closeDone := make(chan error, 1)
	closeStarted = true
	go func() { closeDone <- d.Close() }()
	var closeErr error
	for round := 0; round < 200; round++ {
		synctest.Wait()
		poll()
		if !closeReturned {
			select {
			case closeErr = <-closeDone:
				closeReturned = true
			default:
			}
		}
		if closeReturned && opDone {
			break
		}
		if pend := net.PendingEvents(); len(pend) > 0 {
			time.Sleep(7 * time.Millisecond)
			net.Deliver(pend[0])
			continue
		}
		if round > 150 {
			break
		}
		time.Sleep(31 * time.Second)
	}
	if !closeReturned {
		x.Failf("C14/dual/close-hangs", "Close during %s after %d steps has not returned; goroutines: %v", c.op, steps, c14dLeaks())
		return
	}
	if closeErr != nil {
		x.Failf("C14/dual/close-error", "%v", closeErr)
	}
	if !opDone {
		x.Failf("C14/dual/op-hangs-after-close", "%s in flight at Close never returned; goroutines: %v", c.op, c14dLeaks())
		return
	}
	second := make(chan error, 1)
	go func() { second <- d.Close() }()
	synctest.Wait()
	select {
	case <-second:
	default:
		time.Sleep(time.Minute)
		synctest.Wait()
		select {
		case <-second:
		default:
			x.Failf("C14/dual/second-close-hangs", "goroutines: %v", c14dLeaks())
			return
		}
	}
	cancelOp()
	h.ResetAllStreams()
	time.Sleep(2 * time.Minute)
	synctest.Wait()
	for _, p := range net.PendingEvents() {
		net.DeliverResult(p, nil, sim.ErrSimTimeout)
	}
	synctest.Wait()
	if left := c14dLeaks(); len(left) > 0 {
		x.Failf("C14/dual/leak/"+left[0], "after Close (during %s after %d steps) %d goroutine(s) remain: %v", c.op, steps, len(left), left)
	}
	if n := bus.Open(); n != 0 {
		x.Failf("C14/dual/subscription-left", "%d event bus subscription(s) still open after Close", n)
	}
	if n := h.NotifieeCount(); n != 0 {
		x.Failf("C14/dual/notifiee-left", "%d network notifiee(s) still registered after Close", n)
	}
	hostClosed = true
	h.Close()
	synctest.Wait()
	x.Eval(opRunning)
	x.Outcome("op=%s closed-after=%d result=%s", c.op, steps, strings.SplitN(result, ":", 2)[0])
	_ = ma.StringCast
}

func sortedCopy(l []string) []string {
	o := append([]string(nil), l...)
	for i := range o {
		for j := i + 1; j < len(o); j++ {
			if o[j] < o[i] {
				o[i], o[j] = o[j], o[i]
			}
		}
	}
	return o
}
