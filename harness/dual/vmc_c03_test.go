//go:build verif

package dual

import (
	"context"
	"fmt"
	"sort"
	"strings"
	"testing"
	"testing/synctest"
	"time"

	"github.com/ipfs/go-cid"
	"github.com/libp2p/go-libp2p/core/peer"
	ma "github.com/multiformats/go-multiaddr"

	"github.com/libp2p/go-libp2p-kad-dht/internal/vmc"
	"github.com/libp2p/go-libp2p-kad-dht/internal/vmc/kid"
	"github.com/libp2p/go-libp2p-kad-dht/internal/vmc/sim"
)

// C03 part "dual": the routing operations of the dual client (two inner lookups whose results,
// errors and contexts are combined) terminate, honour cancellation and close their channels for
// every assignment of answering / failing / silent behaviour to two WAN and two LAN responders,
// every order of deliveries across the two lookups and one deviation (cancel, +6 s, +31 s) at
// every instant. Same oracle as the standard client's part.

type c03dcfg struct {
	op         string
	behaviours [4]string // w1 w2 l1 l2
}

var c03dOps = []string{
	"findpeer-unknown", "findpeer-lan-member", "getvalue", "search-first-then-cancel",
	"findprov-c0", "findprov-c1", "findprov-c1-first-then-cancel", "putvalue", "provide", "closest-wan",
	// the consumer takes one result, cancels and walks away without draining the channel
	"findprov-c0-first-then-abandon", "search-first-then-abandon",
	// the consumer starts reading only when every answer has been delivered (results are queued up inside), takes one
	// result, cancels and walks away
	"findprov-c0-late-first-then-abandon",
	// the consumer never reads: when every answer has been delivered (a result is waiting to be handed over) it cancels
	"findprov-c0-late-cancel-unread",
}

func c03dConfigs(tier string) []vmc.Cfg {
	beh := []string{sim.BAll, sim.BReqFail, sim.BSilent}
	var out []vmc.Cfg
	for _, op := range c03dOps {
		for m := 0; m < 81; m++ {
			var as [4]string
			mm, bad := m, 0
			for i := 0; i < 4; i++ {
				as[i] = beh[mm%3]
				if as[i] != sim.BAll {
					bad++
				}
				mm /= 3
			}
			if tier != "thorough" && bad > 2 {
				continue
			}
			out = append(out, vmc.Cfg{Name: fmt.Sprintf("dual/%s/%s", op, strings.Join(as[:], ",")), Budget: 1, Data: c03dcfg{op: op, behaviours: as}})
		}
	}
	return out
}

func TestVMC_C03dual(t *testing.T) {
	vmc.Main(t, vmc.Harness{ID: "C03", Configs: c03dConfigs, Run: c03dRun, Bubble: true})
}

func c03dRun(x *vmc.X, cfg vmc.Cfg) {
	c := cfg.Data.(c03dcfg)
	hostAddrs := []ma.Multiaddr{ma.StringCast("/ip4/8.8.4.4/tcp/4001"), ma.StringCast("/ip4/10.9.9.9/tcp/4001")}
	e, err := newDual(x, hostAddrs)
	if err != nil {
		x.Failf("C03/setup", "%v", err)
		return
	}
	closed := false
	defer func() {
		if !closed {
			e.close()
		}
	}()
	vkey := kid.KeyWithPrefix("v", "000", 0)
	mh := kid.Mh("000", 0)
	pcid := cid.NewCidV1(cid.Raw, mh)
	ids := []peer.ID{e.addWan("w1", "000", 1), e.addWan("w2", "100", 2), e.addLan("l1", "001", 1), e.addLan("l2", "101", 2)}
	if x.Failed() {
		return
	}
	X := peer.AddrInfo{ID: kid.Peer("101", 60), Addrs: []ma.Multiaddr{pubAddr(9)}}
	Y := peer.AddrInfo{ID: kid.Peer("101", 61), Addrs: []ma.Multiaddr{privAddr(8)}}
	for i, id := range ids {
		p := e.w.Peers[id]
		p.Behaviour = c.behaviours[i]
		p.Records[vkey] = sim.Val(1+i%3, "from-"+p.Name)
		if i < 2 {
			p.Providers[string(mh)] = []peer.AddrInfo{X}
		} else {
			p.Providers[string(mh)] = []peer.AddrInfo{Y}
		}
	}
	name := func(id peer.ID) string {
		switch id {
		case X.ID:
			return "X"
		case Y.ID:
			return "Y"
		case "":
			return "-"
		}
		return e.w.Name(id)
	}

	ctx, cancel := context.WithCancel(context.Background())
	defer cancel()
	readNow, released := make(chan struct{}), false
	doneCh := make(chan string, 1)
	run := func(f func() string) { go func() { doneCh <- f() }() }
	switch c.op {
	case "findpeer-unknown":
		run(func() string {
			pi, err := e.d.FindPeer(ctx, kid.Peer("000", 7))
			return fmt.Sprintf("%s err=%v", name(pi.ID), err != nil)
		})
	case "findpeer-lan-member":
		run(func() string {
			pi, err := e.d.FindPeer(ctx, ids[3])
			return fmt.Sprintf("%s err=%v", name(pi.ID), err != nil)
		})
	case "getvalue":
		run(func() string {
			v, err := e.d.GetValue(ctx, vkey)
			return fmt.Sprintf("%q err=%v", v, err != nil)
		})
	case "search-first-then-cancel", "search-first-then-abandon":
		abandon := strings.HasSuffix(c.op, "abandon")
		run(func() string {
			ch, err := e.d.SearchValue(ctx, vkey)
			if err != nil {
				return "err"
			}
			n := 0
			for range ch {
				n++
				if n == 1 {
					cancel()
					if abandon {
						break
					}
				}
			}
			return fmt.Sprintf("values=%d", n)
		})
	case "findprov-c0-late-cancel-unread":
		run(func() string {
			_ = e.d.FindProvidersAsync(ctx, pcid, 0)
			select {
			case <-readNow:
			case <-ctx.Done():
			}
			cancel()
			return "unread"
		})
	case "findprov-c0", "findprov-c1", "findprov-c1-first-then-cancel", "findprov-c0-first-then-abandon", "findprov-c0-late-first-then-abandon":
		count := int(c.op[len("findprov-c")] - '0')
		stop := strings.HasSuffix(c.op, "first-then-cancel") || strings.HasSuffix(c.op, "abandon")
		abandon := strings.HasSuffix(c.op, "abandon")
		late := strings.Contains(c.op, "-late-")
		run(func() string {
			var got []string
			ch := e.d.FindProvidersAsync(ctx, pcid, count)
			if late {
				select {
				case <-readNow:
				case <-ctx.Done():
				}
			}
			for ai := range ch {
				got = append(got, name(ai.ID))
				if stop && len(got) == 1 {
					cancel()
					if abandon {
						break
					}
				}
			}
			sort.Strings(got)
			return fmt.Sprint(got)
		})
	case "putvalue":
		run(func() string { return fmt.Sprintf("err=%v", e.d.PutValue(ctx, vkey, sim.Val(5, "mine")) != nil) })
	case "provide":
		run(func() string { return fmt.Sprintf("err=%v", e.d.Provide(ctx, pcid, true) != nil) })
	case "closest-wan":
		run(func() string {
			ps, err := e.d.WAN.GetClosestPeers(ctx, vkey)
			return fmt.Sprintf("%v err=%v", e.w.Names(ps), err != nil)
		})
	}

	result := ""
	isDone := func() bool {
		select {
		case result = <-doneCh:
			return true
		default:
			return false
		}
	}
	cancelled := false
	idle, steps := 0, 0
	for {
		synctest.Wait()
		if isDone() {
			break
		}
		pend := e.net.PendingEvents()
		if len(pend) == 0 && !released {
			released = true
			close(readNow)
			continue
		}
		if len(pend) == 0 {
			idle++
			if idle > 6 {
				x.Failf("C03/dual/hang/"+c.op, "%s has not returned although every contacted peer has answered, failed or timed out and 3 virtual minutes have passed (cancelled=%v); goroutines: %v", c.op, cancelled, vmc.LeakedGoroutines())
				closed = true
				return
			}
			time.Sleep(31 * time.Second)
			continue
		}
		idle = 0
		if steps > 80 {
			x.Failf("C03/dual/runaway", "more than 80 deliveries")
			return
		}
		labels := make([]string, len(pend))
		for i, p := range pend {
			labels[i] = e.net.Label(p) + "@" + strings.TrimSuffix(strings.TrimPrefix(p.Proto, "/sim"), "/kad/1.0.0")
		}
		n := len(pend)
		costs := make([]int, n, n+3)
		extra := []string{}
		if !cancelled {
			extra = append(extra, "cancel", "+6s", "+31s")
			costs = append(costs, 1, 1, 1)
		}
		i := x.ChooseCost(n+len(extra), "deliver "+fmt.Sprint(labels)+" "+fmt.Sprint(extra), costs)
		if i < n {
			steps++
			time.Sleep(7 * time.Millisecond)
			e.net.Deliver(pend[i])
			continue
		}
		switch extra[i-n] {
		case "cancel":
			cancelled = true
			cancel()
			synctest.Wait()
			if !isDone() {
				time.Sleep(time.Second)
				synctest.Wait()
				if !isDone() {
					x.Failf("C03/dual/cancel-not-honoured/"+c.op, "%s has not returned 1 virtual second after its context was cancelled (pending: %d); goroutines: %v", c.op, len(e.net.PendingEvents()), vmc.LeakedGoroutines())
					closed = true
					return
				}
			}
			doneCh <- result
		case "+6s":
			cancelled = true
			time.Sleep(6 * time.Second)
		case "+31s":
			cancelled = true
			time.Sleep(31 * time.Second)
		}
	}
	x.Obs("%s -> %s", c.op, result)
	x.Outcome("%s %s", c.op, result)
	// background work ends within the operation's own timeouts or at Close
	for round := 0; round < 50; round++ {
		pend := e.net.PendingEvents()
		if len(pend) == 0 {
			break
		}
		time.Sleep(7 * time.Millisecond)
		e.net.Deliver(pend[0])
		synctest.Wait()
	}
	time.Sleep(2 * time.Minute)
	synctest.Wait()
	for _, p := range e.net.PendingEvents() {
		e.net.DeliverResult(p, nil, sim.ErrSimTimeout)
	}
	synctest.Wait()
	closed = true
	e.d.Close()
	synctest.Wait()
	var real []string
	for _, g := range vmc.LeakedGoroutines() {
		if !strings.Contains(g, "pstoremem") && !strings.Contains(g, "synctest.") {
			real = append(real, g)
		}
	}
	if len(real) > 0 {
		x.Failf("C03/dual/leak/"+c.op+"/"+real[0], "after %s returned (caller context cancelled = %v), 2 virtual minutes and Close, %d goroutine(s) are still blocked: %v", c.op, cancelled, len(real), real)
	}
	cancel()
	e.h.Close()
	synctest.Wait()
}
