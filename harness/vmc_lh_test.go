//go:build verif

package dht

import (
	"context"
	"fmt"
	"sort"
	"testing/synctest"

	"github.com/libp2p/go-libp2p/core/host"
	"github.com/libp2p/go-libp2p/core/peer"
	"github.com/libp2p/go-libp2p/core/protocol"

	"github.com/libp2p/go-libp2p-kad-dht/internal/vmc"
	"github.com/libp2p/go-libp2p-kad-dht/internal/vmc/kid"
	"github.com/libp2p/go-libp2p-kad-dht/internal/vmc/sim"
	pb "github.com/libp2p/go-libp2p-kad-dht/pb"
)

func init() {
	// publishing a lookup event must never block the lookup in the harnesses
	LookupEventBufferSize = 1 << 14
}

// lh is the common lookup harness: a real IpfsDHT on the fake host whose every outbound
// interaction is a pending event of the simulated network.
type lh struct {
	x      *vmc.X
	w      *sim.World
	net    *sim.Net
	h      *sim.Host
	bus    *sim.CountingBus
	d      *IpfsDHT
	ctx    context.Context
	cancel context.CancelFunc
	evCh   <-chan *LookupEvent
	events []lhEvent
	step   int
	// delivered is the multiset of delivered event labels (with outcome class), for state keys
	delivered []string
	// onStep, if set, is called at every quiescent instant after the lookup events were drained;
	// returning false aborts the execution (a failure was recorded).
	onStep func() bool
	// stateKey, if set, enables canonical-state pruning (E4): see runToCompletion.
	stateKey func() string
	// onDeliver, if set, sees every event right before it is delivered.
	onDeliver func(p *sim.Pending)
}

type lhEvent struct {
	step int
	ev   *LookupEvent
}

type lhParams struct {
	k, alpha, beta int
	mode           ModeOpt
	modeSet        bool // mode is meaningful even when it is the zero value (ModeAuto)
	opts           []Option
	hostOpts       func(h host.Host) []Option // options that need the host
	autoRefresh    bool                       // leave the routing-table refresh manager enabled
	countBus       bool                       // wrap the event bus in a sim.CountingBus (l.bus)
	subscribeFail  int                        // with countBus: the n-th Subscribe fails
}

var lhSelf = kid.Peer("0110", 0)

var lhRefreshKeys = map[uint]string{}

// lhRefreshKey is the deterministic stand-in for RoutingTable.GenRandPeerID: a fixed peer id
// sharing exactly cpl leading bits with the local node.
func lhRefreshKey(cpl uint) (string, error) {
	if k, ok := lhRefreshKeys[cpl]; ok {
		return k, nil
	}
	if cpl > 12 {
		cpl = 12
	}
	b := []byte(kid.BitsOf([]byte(lhSelf), int(cpl)+1))
	b[cpl] = '0' + ('1' - b[cpl])
	k := string(kid.Peer(string(b), 40))
	lhRefreshKeys[cpl] = k
	return k, nil
}

func newLH(x *vmc.X, w *sim.World, p lhParams) (*lh, error) {
	l := &lh{x: x, w: w, net: sim.NewNet(w)}
	l.h = sim.NewHost(w.Self)
	l.h.DialFn = l.net.Dial
	if p.countBus {
		l.bus = &sim.CountingBus{Bus: l.h.EventBus(), FailAt: p.subscribeFail}
		l.h.SetEventBus(l.bus)
	}
	mode := p.mode
	if mode == 0 && !p.modeSet {
		mode = ModeClient
	}
	opts := []Option{
		ProtocolPrefix("/sim"), BucketSize(p.k), Concurrency(p.alpha), Resiliency(p.beta), Mode(mode),
		Validator(sim.Validator()),
		WithCustomMessageSender(func(h host.Host, protos []protocol.ID) pb.MessageSenderWithDisconnect {
			return l.net.Sender(string(protos[0]))
		}),
	}
	if !p.autoRefresh {
		opts = append(opts, DisableAutoRefresh())
	}
	opts = append(opts, p.opts...)
	if p.hostOpts != nil {
		opts = append(opts, p.hostOpts(l.h)...)
	}
	d, err := New(l.h, opts...)
	if err != nil {
		l.h.Close()
		return nil, err
	}
	l.d = d
	d.shuffle = func(int, func(int, int)) {}
	d.rtRefreshManager.VmcSetKeyGen(lhRefreshKey)
	ctx, cancel := context.WithCancel(context.Background())
	l.ctx, l.evCh = RegisterForLookupEvents(ctx)
	l.cancel = cancel
	synctest.Wait()
	return l, nil
}

// seed puts peers into the routing table through the public TryAddPeer and returns the table.
func (l *lh) seed(ids []peer.ID) []peer.ID {
	for _, id := range ids {
		l.d.RoutingTable().TryAddPeer(id, true, false)
	}
	synctest.Wait()
	return l.d.RoutingTable().ListPeers()
}

// drain collects the lookup events published since the last call and stamps them with the step.
func (l *lh) drain() {
	for {
		select {
		case ev, ok := <-l.evCh:
			if !ok {
				return
			}
			l.events = append(l.events, lhEvent{l.step, ev})
		default:
			return
		}
	}
}

// cancelEventsOnly stops the lookup-event registration without cancelling anything the
// operation under test was given (l.ctx is the parent of the operation's context only through
// context.WithValue, so it must stay alive when the harness checks for leaks).
func (l *lh) cancelEventsOnly() {}

func (l *lh) close() {
	l.h.ResetAllStreams()
	l.cancel()
	l.d.Close()
	l.h.Close()
	synctest.Wait()
}

// runToCompletion delivers pending events in explorer-chosen order until done() reports true.
// It returns false (after recording a failure) when nothing is pending and the operation has
// not finished.
func (l *lh) runToCompletion(sig string, done func() bool, maxSteps int) bool {
	for {
		synctest.Wait()
		l.drain()
		if l.onStep != nil && !l.onStep() {
			return false
		}
		if done() {
			return true
		}
		pend := l.net.PendingEvents()
		if len(pend) == 0 {
			l.x.Failf(sig+"/hang", "operation has not returned although no request is pending (step %d)", l.step)
			return false
		}
		if l.step >= maxSteps {
			l.x.Failf(sig+"/runaway", "more than %d deliveries", maxSteps)
			return false
		}
		labels := make([]string, len(pend))
		for i, p := range pend {
			labels[i] = l.net.Label(p)
		}
		sort.Strings(labels)
		if l.stateKey != nil && l.x.Seen(l.stateKey()+"|pending:"+fmt.Sprint(labels)) {
			return false // state already explored: not a failure
		}
		i := l.x.Choose(len(pend), vmc.Order, "deliver "+fmt.Sprint(labels))
		l.step++
		l.delivered = append(l.delivered, l.net.Label(pend[i]))
		if l.onDeliver != nil {
			l.onDeliver(pend[i])
		}
		l.net.Deliver(pend[i])
	}
}

// kadLess orders peers by distance to key.
func kadLess(a, b peer.ID, key string) bool { return kid.Xor([]byte(a), []byte(b), []byte(key)) < 0 }

// deliveredKey is the sorted multiset of delivered events.
func (l *lh) deliveredKey() string {
	d := append([]string(nil), l.delivered...)
	sort.Strings(d)
	return fmt.Sprint(d)
}
