//go:build verif

package records

import (
	"context"
	"errors"
	"fmt"
	"sort"
	"strings"
	gosync "sync"
	"testing"
	"testing/synctest"
	"time"

	lru "github.com/hashicorp/golang-lru/simplelru"
	"github.com/libp2p/go-libp2p/core/peer"
	"github.com/libp2p/go-libp2p/core/peerstore"
	"github.com/libp2p/go-libp2p/p2p/host/peerstore/pstoremem"
	ma "github.com/multiformats/go-multiaddr"

	"github.com/libp2p/go-libp2p-kad-dht/internal/vmc"
	"github.com/libp2p/go-libp2p-kad-dht/internal/vmc/jds"
	"github.com/libp2p/go-libp2p-kad-dht/internal/vmc/kid"
	"github.com/libp2p/go-libp2p-kad-dht/internal/vmc/vsync"
)

// C07 part "hist" (E4): histories of add/get/clock/restart on the real ProviderManager (virtual
// time, LRU cache of size 2 with 3 keys, GC enabled or disabled) against map[(key,provider)]lastAdd.

const c07V = 1000 * time.Second

type c07cfg struct {
	gc    time.Duration
	depth int
	nprov int
}

func c07Configs(tier string) []vmc.Cfg {
	depth := 6
	if tier == "thorough" {
		depth = 8
	}
	return []vmc.Cfg{
		{Name: fmt.Sprintf("hist/gc-off/depth%d", depth), Data: c07cfg{0, depth, 2}},
		{Name: fmt.Sprintf("hist/gc-every-V/2/depth%d", depth), Data: c07cfg{c07V / 2, depth, 2}},
		{Name: fmt.Sprintf("hist/gc-every-V/3+7ns/depth%d", depth-1), Data: c07cfg{c07V/3 + 7, depth - 1, 3}},
	}
}

func TestVMC_C07hist(t *testing.T) {
	vmc.Main(t, vmc.Harness{ID: "C07", Configs: c07Configs, Run: c07HistRun, Bubble: true, ShardSubtree: true, NoStateFromObs: true})
}

type c07op struct {
	kind string
	k, p int
	d    time.Duration
}

func (o c07op) String() string {
	switch o.kind {
	case "add":
		return fmt.Sprintf("add(k%d,p%d)", o.k, o.p)
	case "get":
		return fmt.Sprintf("get(k%d)", o.k)
	case "clock":
		return fmt.Sprintf("clock+%v", o.d)
	}
	return o.kind
}

var c07Addr = ma.StringCast("/ip4/1.2.3.4/tcp/4001")

func c07NewPM(self peer.ID, ps peerstore.Peerstore, store *jds.Store, gc time.Duration) (*ProviderManager, error) {
	cache, err := lru.NewLRU(2, nil)
	if err != nil {
		return nil, err
	}
	pm, err := NewProviderManager(self, ps, store, ProvideValidity(c07V), CleanupInterval(gc), Cache(cache))
	if err != nil {
		return nil, err
	}
	pm.shuffle = func(int, func(int, int)) {} // identity: provider order is not part of the property
	return pm, nil
}

// c07StateKey renders everything future behaviour depends on: datastore entries with their ages,
// the cache (LRU order, per key the provider list and ages) and the GC phase.
func c07StateKey(pm *ProviderManager, store *jds.Store, born time.Time, gc time.Duration) string {
	now := time.Now()
	var sb strings.Builder
	for _, k := range store.Keys() {
		v, _ := store.Raw(k)
		t, err := readTimeValue(v)
		if err != nil {
			fmt.Fprintf(&sb, "%s=?;", k)
		} else {
			fmt.Fprintf(&sb, "%s=%d;", k, now.Sub(t))
		}
	}
	sb.WriteString("|cache:")
	for _, ck := range pm.cache.Keys() {
		v, _ := pm.cache.Peek(ck)
		ps := v.(*providerSet)
		fmt.Fprintf(&sb, "[%x:", ck)
		for _, p := range ps.providers {
			fmt.Fprintf(&sb, "%x@%d,", string(p)[2:6], now.Sub(ps.set[p]))
		}
		var extra []string
		for p, t := range ps.set {
			found := false
			for _, q := range ps.providers {
				if q == p {
					found = true
				}
			}
			if !found {
				extra = append(extra, fmt.Sprintf("%x@%d", string(p)[2:6], now.Sub(t)))
			}
		}
		sort.Strings(extra)
		fmt.Fprintf(&sb, "set-only:%v]", extra)
	}
	if gc > 0 {
		fmt.Fprintf(&sb, "|phase:%d", now.Sub(born)%gc)
	}
	return sb.String()
}

func c07HistRun(x *vmc.X, cfg vmc.Cfg) {
	c := cfg.Data.(c07cfg)
	ctx := context.Background()
	self := kid.Peer("0", 0)
	provs := []peer.ID{kid.Peer("1", 0), kid.Peer("1", 1), self}[:c.nprov]
	// key 1 is a byte prefix of key 2, and its 5 bytes end on a base32 character boundary, so the datastore key of
	// key 1 is a string prefix of the datastore key of key 2
	keys := [][]byte{[]byte("key-zero"), []byte("key-o"), []byte("key-one")}
	ps, err := pstoremem.NewPeerstore()
	if err != nil {
		x.Failf("C07/setup", "%v", err)
		return
	}
	defer ps.Close()
	store := jds.New()
	born := time.Now()
	pm, err := c07NewPM(self, ps, store, c.gc)
	if err != nil {
		x.Failf("C07/setup", "%v", err)
		return
	}
	defer func() { pm.Close() }()
	var ops []c07op
	for k := range keys {
		for p := range provs {
			ops = append(ops, c07op{kind: "add", k: k, p: p})
		}
	}
	for k := range keys {
		ops = append(ops, c07op{kind: "get", k: k})
	}
	ops = append(ops, c07op{kind: "clock", d: c07V / 2}, c07op{kind: "clock", d: c07V/2 + 1}, c07op{kind: "clock", d: c07V + 1}, c07op{kind: "restart"})
	type kp struct{ k, p int }
	model := map[kp]time.Time{}
	checkGet := func(k int, where string) bool {
		got, err := pm.GetProviders(ctx, keys[k])
		if err != nil {
			x.Failf("C07/get-error", "%s: GetProviders(k%d): %v", where, k, err)
			return false
		}
		var want, have []string
		for p := range provs {
			if t, ok := model[kp{k, p}]; ok && time.Since(t) <= c07V {
				want = append(want, fmt.Sprintf("p%d", p))
			}
		}
		seen := map[peer.ID]bool{}
		for _, ai := range got {
			if seen[ai.ID] {
				x.Failf("C07/duplicate", "%s: GetProviders(k%d) lists a provider twice", where, k)
				return false
			}
			seen[ai.ID] = true
			name := "?"
			for p, id := range provs {
				if id == ai.ID {
					name = fmt.Sprintf("p%d", p)
				}
			}
			have = append(have, name)
		}
		sort.Strings(have)
		if fmt.Sprint(have) != fmt.Sprint(want) {
			ages := ""
			for p := range provs {
				if t, ok := model[kp{k, p}]; ok {
					ages += fmt.Sprintf("p%d added %v ago; ", p, time.Since(t))
				}
			}
			x.Failf("C07/get", "%s: GetProviders(k%d)=%v, model %v (validity %v; %s)", where, k, have, want, c07V, ages)
			return false
		}
		return true
	}
	for step := 0; step < c.depth; step++ {
		i := x.Choose(len(ops)+1, vmc.Free, "op")
		if i == len(ops) {
			break
		}
		op := ops[i]
		x.Obs("%s", op)
		switch op.kind {
		case "add":
			ai := peer.AddrInfo{ID: provs[op.p], Addrs: []ma.Multiaddr{c07Addr}}
			if err := pm.AddProvider(ctx, keys[op.k], ai); err != nil {
				x.Failf("C07/add-error", "%s: %v", op, err)
				return
			}
			model[kp{op.k, op.p}] = time.Now()
		case "get":
			if !checkGet(op.k, "after "+op.String()) {
				return
			}
		case "clock":
			time.Sleep(op.d)
			synctest.Wait() // let a GC sweep that became due finish
		case "restart":
			if err := pm.Close(); err != nil {
				x.Failf("C07/close", "%v", err)
				return
			}
			if err := pm.Close(); err != nil {
				x.Failf("C07/close-twice", "%v", err)
				return
			}
			if _, err := pm.GetProviders(ctx, keys[0]); !errors.Is(err, ErrClosed) {
				x.Failf("C07/not-closed", "GetProviders after Close: %v", err)
				return
			}
			before := store.Calls
			_ = pm.AddProvider(ctx, keys[0], peer.AddrInfo{ID: provs[0]})
			if store.Calls != before {
				x.Failf("C07/touches-datastore-after-close", "AddProvider after Close reached the datastore")
				return
			}
			pm, err = c07NewPM(self, ps, store, c.gc)
			if err != nil {
				x.Failf("C07/reopen", "%v", err)
				return
			}
			born = time.Now()
		}
		if x.Seen(c07StateKey(pm, store, born, c.gc)) {
			return
		}
	}
	// terminal: every key is queried (twice: uncached and cached path), then once more after a restart
	for k := range keys {
		if !checkGet(k, "final") || !checkGet(k, "final (repeated)") {
			return
		}
	}
	pm.Close()
	pm, err = c07NewPM(self, ps, store, c.gc)
	if err != nil {
		x.Failf("C07/reopen", "%v", err)
		return
	}
	for k := range keys {
		if !checkGet(k, "after final restart") {
			return
		}
	}
	out := ""
	for k := range keys {
		for p := range provs {
			if t, ok := model[kp{k, p}]; ok && time.Since(t) <= c07V {
				out += fmt.Sprintf("k%dp%d ", k, p)
			}
		}
	}
	x.Outcome("valid: %s", out)
}

// ---- part "conc" (E2) ----------------------------------------------------------------------------

type c07ccfg struct {
	scenario string
}

func c07cConfigs(tier string) []vmc.Cfg {
	b := 100 // unbounded: every interleaving at lock/datastore-call granularity
	_ = tier
	return []vmc.Cfg{
		{Name: "conc/gc-vs-readd-vs-get", Budget: b, Data: c07ccfg{"gc"}},
		{Name: "conc/close-vs-add-vs-get", Budget: b, Data: c07ccfg{"close"}},
		{Name: "conc/close-vs-gc-vs-add", Budget: b, Data: c07ccfg{"close-gc"}},
	}
}

func TestVMC_C07conc(t *testing.T) {
	vmc.Main(t, vmc.Harness{ID: "C07", Configs: c07cConfigs, Run: c07ConcRun, Bubble: true, ShardSubtree: true})
}

func c07ConcRun(x *vmc.X, cfg vmc.Cfg) {
	c := cfg.Data.(c07ccfg)
	ctx := context.Background()
	self := kid.Peer("0", 0)
	p0, p1 := kid.Peer("1", 0), kid.Peer("1", 1)
	k0, k1 := []byte("key-zero"), []byte("key-one")
	ps, err := pstoremem.NewPeerstore()
	if err != nil {
		x.Failf("C07/setup", "%v", err)
		return
	}
	defer ps.Close()
	store := jds.New()
	// the real GC loop is used: its first tick falls 5ns after the set-up below, while the
	// scheduler is already active, so the sweep's datastore calls are scheduling points
	gcEvery := c07V + 6
	pm, err := c07NewPM(self, ps, store, gcEvery)
	if err != nil {
		x.Failf("C07/setup", "%v", err)
		return
	}
	defer func() { pm.Close() }()
	ai := func(p peer.ID) peer.AddrInfo { return peer.AddrInfo{ID: p, Addrs: []ma.Multiaddr{c07Addr}} }
	// set-up: (k0,p0) expired, (k1,p1) fresh; k0 is cached with the (now expired) entry
	pm.AddProvider(ctx, k0, ai(p0))
	pm.GetProviders(ctx, k0)
	time.Sleep(c07V + 1)
	pm.AddProvider(ctx, k1, ai(p1))
	k0p0 := mkProvKeyFor(k0, p0)

	sched := vmc.NewSched(x)
	var mu gosync.Mutex
	type dsop struct{ who, op, key string }
	var log []dsop
	store.Hook = func(op, key string) error {
		sched.Point(op + " " + key)
		return nil
	}
	vsync.Hook = func(addr any, op string) {
		if op == "lock" {
			sched.Point("lock")
		}
	}
	defer func() { vsync.Hook = nil }()
	clock := 0
	tick := func() int { mu.Lock(); defer mu.Unlock(); clock++; return clock }
	type ev struct {
		what          string
		callAt, retAt int
		err           error
		got           []peer.AddrInfo
	}
	var evs []*ev
	run := func(name string, f func(e *ev)) {
		sched.Go(name, func() {
			e := &ev{what: name}
			e.callAt = tick()
			f(e)
			e.retAt = tick()
			mu.Lock()
			evs = append(evs, e)
			mu.Unlock()
		})
	}
	closeRet := 0
	switch c.scenario {
	case "gc":
		time.Sleep(5) // GC tick: the sweep starts and parks at its first datastore call
		run("readd", func(e *ev) { e.err = pm.AddProvider(ctx, k0, ai(p0)) })
		run("get", func(e *ev) { e.got, e.err = pm.GetProviders(ctx, k0) })
	case "close":
		run("add", func(e *ev) { e.err = pm.AddProvider(ctx, k0, ai(p0)) })
		run("get", func(e *ev) { e.got, e.err = pm.GetProviders(ctx, k1) })
		run("close", func(e *ev) { e.err = pm.Close(); store.Fence(); closeRet = tick() })
	case "close-gc":
		time.Sleep(5) // GC tick
		run("add", func(e *ev) { e.err = pm.AddProvider(ctx, k1, ai(p0)) })
		run("close", func(e *ev) { e.err = pm.Close(); store.Fence(); closeRet = tick() })
	}
	_ = log
	sawClose := false
	for steps := 0; steps < 300; steps++ {
		synctest.Wait()
		if !sawClose && sched.Done("close") {
			sawClose = true
			// C14: when Close returns, nothing the manager started (its GC loop) is still running
			if left := sched.ParkedOthers(); len(left) > 0 {
				x.Failf("C14/providers/close-returned-early", "%s: Close returned while the manager's own goroutine is still inside %v", c.scenario, left)
				sched.Finish()
				return
			}
		}
		if len(sched.Parked()) == 0 {
			break
		}
		if !sched.Step(nil) {
			break
		}
	}
	synctest.Wait()
	if !sched.AllDone() {
		x.Failf("C07/deadlock", "threads %v cannot finish; parked %v", sched.Unfinished(), sched.Parked())
		sched.Finish()
		return
	}
	sched.Finish()
	store.Hook = nil
	vsync.Hook = nil
	find := func(n string) *ev {
		for _, e := range evs {
			if e.what == n {
				return e
			}
		}
		return nil
	}
	switch c.scenario {
	case "gc":
		readd, get := find("readd"), find("get")
		if readd.err != nil || get.err != nil {
			x.Failf("C07/error", "readd=%v get=%v", readd.err, get.err)
			return
		}
		// a get that started after the re-add was acknowledged must list p0, unless the documented
		// race applies: the sweep read the expired entry before the re-add wrote it and deleted it after.
		j := store.Journal()
		putIdx, delAfterPut := -1, false
		for i, e := range j {
			if e.Op == "put" && e.Key == k0p0 && i >= 2 {
				putIdx = i
			}
		}
		for i, e := range j {
			if e.Op == "delete" && e.Key == k0p0 && putIdx >= 0 && i > putIdx {
				delAfterPut = true
			}
		}
		final, err := pm.GetProviders(ctx, k0)
		if err != nil {
			x.Failf("C07/error", "final get: %v", err)
			return
		}
		has := func(l []peer.AddrInfo, p peer.ID) bool {
			for _, a := range l {
				if a.ID == p {
					return true
				}
			}
			return false
		}
		if get.callAt > readd.retAt && !has(get.got, p0) {
			x.Failf("C07/acked-add-not-served", "get started @%d after the re-add was acknowledged @%d but does not list the provider", get.callAt, readd.retAt)
			return
		}
		if get.retAt < readd.callAt && has(get.got, p0) {
			x.Failf("C07/expired-served", "get finished @%d before the re-add started @%d but lists the expired provider", get.retAt, readd.callAt)
			return
		}
		if !has(final, p0) {
			// the cache may still serve it; what matters is the durable state: query after restart
			x.Failf("C07/readd-lost-live", "after re-add (acknowledged) the provider is not served; delete-after-put in journal: %v", delAfterPut)
			return
		}
		pm.Close()
		pm, err = c07NewPM(self, ps, store, 0)
		if err != nil {
			x.Failf("C07/reopen", "%v", err)
			return
		}
		after, _ := pm.GetProviders(ctx, k0)
		if !has(after, p0) && !delAfterPut {
			x.Failf("C07/readd-lost", "the re-added provider is gone after a restart although the sweep did not delete it after the write")
			return
		}
		if !has(after, p0) {
			vmc.Count("documented_lost_readdition", 1)
		}
		other, _ := pm.GetProviders(ctx, k1)
		if !has(other, p1) {
			x.Failf("C07/fresh-deleted", "a fresh record of another key was deleted")
			return
		}
		x.Obs("get-lists-p0=%v after-restart=%v", has(get.got, p0), has(after, p0))
		x.Outcome("get-lists-p0=%v after-restart=%v", has(get.got, p0), has(after, p0))
	default:
		if store.CallsAfterFence != 0 {
			x.Failf("C07/datastore-touched-after-close", "%d datastore call(s) started after Close had returned", store.CallsAfterFence)
			return
		}
		res := ""
		for _, e := range evs {
			if e.what == "close" || e.what == "gc" {
				continue
			}
			if e.callAt > closeRet && closeRet > 0 && !errors.Is(e.err, ErrClosed) {
				x.Failf("C07/late-call-not-refused", "%s started @%d after Close returned @%d: err=%v", e.what, e.callAt, closeRet, e.err)
				return
			}
			if e.err != nil && !errors.Is(e.err, ErrClosed) {
				x.Failf("C07/error", "%s: %v", e.what, e.err)
				return
			}
			res += fmt.Sprintf("%s:%v ", e.what, e.err == nil)
		}
		if err := pm.Close(); err != nil {
			x.Failf("C07/close-twice", "%v", err)
			return
		}
		x.Obs("%s", res)
		x.Outcome("%s", res)
	}
}
