//go:build verif

package records

import (
	"context"
	"errors"
	"fmt"
	gosync "sync"
	"testing"
	"testing/synctest"
	"time"

	recpb "github.com/libp2p/go-libp2p-record/pb"
	"google.golang.org/protobuf/proto"

	"github.com/libp2p/go-libp2p-kad-dht/internal"
	"github.com/libp2p/go-libp2p-kad-dht/internal/vmc"
	"github.com/libp2p/go-libp2p-kad-dht/internal/vmc/jds"
	"github.com/libp2p/go-libp2p-kad-dht/internal/vmc/sim"
)

// C05 part "store" (E2): concurrent Put/Get/GC on the real ValueStore under the controlled
// scheduler, scheduling point at every datastore call. The oracle reads the write journal.

const c05MaxAge = 1000 * time.Second

type c05op struct {
	kind string // "put", "get", "gc", "sleep"
	key  string
	seq  int
	pay  string
	d    time.Duration
}

func (o c05op) String() string {
	switch o.kind {
	case "put":
		return fmt.Sprintf("put(%s,%d:%s)", o.key, o.seq, o.pay)
	case "get":
		return "get(" + o.key + ")"
	case "sleep":
		return fmt.Sprintf("sleep(%v)", o.d)
	}
	return o.kind
}

type c05cfg struct {
	name    string
	initial []c05op // sequential set-up (puts and sleeps)
	threads [][]c05op
}

const (
	kA  = "/v/a"  // key under test
	kA2 = "/v/ba" // shares the lock stripe of kA (same last byte)
	kB  = "/v/b"  // different stripe
)

func c05Configs(tier string) []vmc.Cfg {
	put := func(k string, seq int, pay string) c05op { return c05op{kind: "put", key: k, seq: seq, pay: pay} }
	get := func(k string) c05op { return c05op{kind: "get", key: k} }
	gc := c05op{kind: "gc"}
	sleep := func(d time.Duration) c05op { return c05op{kind: "sleep", d: d} }
	expired := []c05op{put(kA, 2, "old"), sleep(c05MaxAge + 1)}
	expiredS := []c05op{put(kA, 2, "old"), sleep(c05MaxAge + time.Second)}
	atAge := []c05op{put(kA, 2, "old"), sleep(c05MaxAge)}
	cfgs := []c05cfg{
		{"put-put-put/empty", nil, [][]c05op{{put(kA, 1, "x")}, {put(kA, 2, "y")}, {put(kA, 2, "z")}}},
		{"put-put/over-seq1", []c05op{put(kA, 1, "x")}, [][]c05op{{put(kA, 2, "y"), get(kA)}, {put(kA, 3, "z")}, {put(kA, 0, "w")}}},
		{"expired/get-put-put", expired, [][]c05op{{get(kA)}, {put(kA, 1, "fresh")}, {put(kA, 3, "fresh")}}},
		{"expired/get-put-get", expired, [][]c05op{{get(kA)}, {put(kA, 2, "fresh"), get(kA)}, {get(kA)}}},
		{"expired/gc-put-get", expired, [][]c05op{{gc}, {put(kA, 3, "fresh")}, {get(kA)}}},
		{"expired/gc-get-put", expired, [][]c05op{{gc, get(kA)}, {put(kA, 1, "fresh")}}},
		// republished with the same value / a value of the same length, whole seconds later (the stored entries have equal sizes)
		{"expired/get-reput-same", expiredS, [][]c05op{{get(kA)}, {put(kA, 2, "old"), get(kA)}, {get(kA)}}},
		{"expired/gc-reput-same-length", expiredS, [][]c05op{{gc}, {put(kA, 3, "new")}, {get(kA)}}},
		{"at-max-age/get-gc-put", atAge, [][]c05op{{get(kA)}, {gc}, {put(kA, 1, "w")}}},
		{"invalid-and-equal", []c05op{put(kA, 2, "x")}, [][]c05op{{put(kA, 2, "bad")}, {put(kA, 2, "same")}, {get(kA)}}},
		{"same-stripe-keys", nil, [][]c05op{{put(kA, 1, "x"), get(kA2)}, {put(kA2, 1, "y"), get(kA)}, {put(kB, 1, "z")}}},
		{"reput-restamps", []c05op{put(kA, 2, "x"), sleep(c05MaxAge / 2)}, [][]c05op{{put(kA, 2, "x"), sleep(c05MaxAge/2 + 1), get(kA)}, {get(kA)}}},
	}
	budget := 100
	if tier == "thorough" {
		budget = 100 // unbounded: every interleaving at datastore-call granularity
	}
	var out []vmc.Cfg
	for _, c := range cfgs {
		out = append(out, vmc.Cfg{Name: "store/" + c.name, Budget: budget, Data: c})
	}
	return out
}

func TestVMC_C05store(t *testing.T) {
	vmc.Main(t, vmc.Harness{ID: "C05", Configs: c05Configs, Run: c05Run, Bubble: true, ShardSubtree: true})
}

type c05event struct {
	thread   int
	op       c05op
	callAt   int
	retAt    int
	callTime time.Time
	retTime  time.Time
	err      error
	got      *recpb.Record
}

func c05Rec(key string, seq int, pay string) *recpb.Record {
	return &recpb.Record{Key: []byte(key), Value: sim.Val(seq, pay)}
}

func c05Run(x *vmc.X, cfg vmc.Cfg) {
	c := cfg.Data.(c05cfg)
	ctx := context.Background()
	store := jds.New()
	vs := NewValueStore(store, sim.Validator(), c05MaxAge)
	for _, op := range c.initial {
		switch op.kind {
		case "put":
			if err := vs.Put(ctx, op.key, c05Rec(op.key, op.seq, op.pay)); err != nil {
				x.Failf("C05/setup", "setup %s: %v", op, err)
				return
			}
		case "sleep":
			time.Sleep(op.d)
		}
	}
	setupJ := store.JournalLen()
	sched := vmc.NewSched(x)
	type jtime struct{ t time.Time }
	var jmu gosync.Mutex
	jtimes := map[int]time.Time{} // journal index -> virtual time of the write
	store.Hook = func(op, key string) error {
		sched.Point(op + " " + key)
		return nil
	}
	var mu gosync.Mutex
	clock := 0
	tick := func() int { mu.Lock(); defer mu.Unlock(); clock++; return clock }
	var events []*c05event
	for ti, ops := range c.threads {
		ti, ops := ti, ops
		sched.Go(fmt.Sprintf("t%d", ti), func() {
			for n, op := range ops {
				if n > 0 {
					sched.Point("next " + op.String())
				}
				e := &c05event{thread: ti, op: op}
				e.callAt, e.callTime = tick(), time.Now()
				switch op.kind {
				case "put":
					e.err = vs.Put(ctx, op.key, c05Rec(op.key, op.seq, op.pay))
				case "get":
					e.got, e.err = vs.Get(ctx, op.key)
				case "gc":
					vs.collectExpired(ctx)
				case "sleep":
					time.Sleep(op.d)
				}
				e.retAt, e.retTime = tick(), time.Now()
				mu.Lock()
				events = append(events, e)
				mu.Unlock()
			}
		})
	}
	_ = jmu
	_ = jtimes
	for steps := 0; steps < 500; steps++ {
		synctest.Wait()
		if len(sched.Parked()) == 0 {
			if sched.AllDone() {
				break
			}
			// only sleeping threads remain: let virtual time pass
			time.Sleep(c05MaxAge/2 + 1)
			continue
		}
		if !sched.Step(nil) {
			break
		}
	}
	synctest.Wait()
	if !sched.AllDone() {
		x.Failf("C05/deadlock", "threads %v cannot finish; parked %v", sched.Unfinished(), sched.Parked())
		sched.Finish()
		return
	}
	sched.Finish()
	store.Hook = nil

	// ---- oracle over the write journal ----------------------------------------------------------
	// (time of a journal entry is not recorded; age-sensitive checks use the events' virtual times)
	journal := store.Journal()
	current := map[string][]byte{}
	for _, e := range journal[:setupJ] {
		if e.Op == "put" {
			current[e.Key] = e.Value
		} else if e.Op == "delete" {
			delete(current, e.Key)
		}
	}
	parse := func(b []byte) *recpb.Record {
		r := new(recpb.Record)
		if proto.Unmarshal(b, r) != nil {
			return nil
		}
		return r
	}
	val := sim.Validator()
	for i := setupJ; i < len(journal); i++ {
		e := journal[i]
		switch e.Op {
		case "put":
			r := parse(e.Value)
			if r == nil {
				x.Failf("C05/stored-garbage", "journal[%d]: unparsable bytes written at %s", i, e.Key)
				return
			}
			if valueDsKey(string(r.GetKey())).String() != e.Key {
				x.Failf("C05/stored-under-wrong-key", "journal[%d]: record with key %q written at %s", i, r.GetKey(), e.Key)
				return
			}
			if err := val.Validate(string(r.GetKey()), r.GetValue()); err != nil {
				x.Failf("C05/stored-invalid", "journal[%d]: invalid value %q stored for %q", i, r.GetValue(), r.GetKey())
				return
			}
			if cur := parse(current[e.Key]); cur != nil && val.Validate(string(cur.GetKey()), cur.GetValue()) == nil {
				if sim.Seq(r.GetValue()) < sim.Seq(cur.GetValue()) {
					x.Failf("C05/downgrade", "journal[%d]: %q (seq %d) replaced by worse %q", i, cur.GetValue(), sim.Seq(cur.GetValue()), r.GetValue())
					return
				}
			}
			current[e.Key] = e.Value
		case "delete":
			delete(current, e.Key)
		}
	}
	// ---- oracle over the call/return events ---------------------------------------------------------
	// acknowledged puts, by key
	for _, g := range events {
		if g.op.kind != "get" {
			continue
		}
		if g.err != nil {
			x.Failf("C05/get-error", "%s: %v", g.op, g.err)
			return
		}
		if g.got != nil {
			if string(g.got.GetKey()) != g.op.key {
				x.Failf("C05/get-wrong-key", "%s returned a record for %q", g.op, g.got.GetKey())
				return
			}
			if val.Validate(g.op.key, g.got.GetValue()) != nil {
				x.Failf("C05/get-invalid", "%s returned invalid value %q", g.op, g.got.GetValue())
				return
			}
			rt, err := internal.ParseRFC3339(g.got.GetTimeReceived())
			if err != nil || g.callTime.Sub(rt) > c05MaxAge {
				x.Failf("C05/served-expired", "%s at %v returned a record received at %v (max age %v)", g.op, g.callTime.Sub(time.Unix(946684800, 0)), g.got.GetTimeReceived(), c05MaxAge)
				return
			}
		}
		// every put acknowledged before this get started and not aged out must be covered
		for _, p := range events {
			if p.op.kind != "put" || p.op.key != g.op.key || p.err != nil || p.retAt > g.callAt {
				continue
			}
			if g.retTime.Sub(p.callTime) > c05MaxAge {
				continue // may have aged out by the time of the read
			}
			if g.got == nil || sim.Seq(g.got.GetValue()) < p.op.seq {
				gv := "<nil>"
				if g.got != nil {
					gv = string(g.got.GetValue())
				}
				x.Failf("C05/acked-put-unreadable", "%s (thread %d, started @%d) returned %s although %s was acknowledged @%d, %v earlier", g.op, g.thread, g.callAt, gv, p.op, p.retAt, g.retTime.Sub(p.callTime))
				return
			}
		}
	}
	for _, p := range events {
		if p.op.kind != "put" {
			continue
		}
		valid := val.Validate(p.op.key, sim.Val(p.op.seq, p.op.pay)) == nil
		if !valid && p.err == nil {
			x.Failf("C05/invalid-accepted", "%s was acknowledged", p.op)
			return
		}
		if p.err != nil && valid && !errors.Is(p.err, ErrOldRecord) {
			x.Failf("C05/put-error", "%s: %v", p.op, p.err)
			return
		}
	}
	// final read of every key: the best acknowledged put, unless aged out
	obs := ""
	for _, k := range []string{kA, kA2, kB} {
		best, bestAt := -1, time.Time{}
		for _, p := range events {
			if p.op.kind == "put" && p.op.key == k && p.err == nil && p.op.seq >= best {
				best, bestAt = p.op.seq, p.callTime
			}
		}
		r, err := vs.Get(ctx, k)
		if err != nil {
			x.Failf("C05/get-error", "final get(%s): %v", k, err)
			return
		}
		if best >= 0 && time.Since(bestAt) <= c05MaxAge {
			if r == nil || sim.Seq(r.GetValue()) < best {
				x.Failf("C05/final-lost", "final get(%s) = %v, best acknowledged put had seq %d", k, r, best)
				return
			}
		}
		if r != nil {
			obs += fmt.Sprintf("%s=%s ", k, r.GetValue())
		} else {
			obs += k + "=nil "
		}
	}
	res := ""
	for ti := range c.threads {
		for _, e := range events {
			if e.thread == ti {
				res += fmt.Sprintf("t%d:%s=%v ", ti, e.op.kind, e.err == nil && (e.op.kind != "get" || e.got != nil))
			}
		}
	}
	x.Obs("final %s| %s", obs, res)
	x.Outcome("%s| %s", obs, res)
}
