//go:build verif

package records

import (
	"context"
	"fmt"
	"strings"
	"testing"
	"testing/synctest"
	"time"

	"github.com/libp2p/go-libp2p-kad-dht/internal/vmc"
	"github.com/libp2p/go-libp2p-kad-dht/internal/vmc/jds"
	"github.com/libp2p/go-libp2p-kad-dht/internal/vmc/sim"
)

// C14 (value store): Close in every interleaving with a running sweep (every datastore call is
// a scheduling point that does not observe cancellation), with Put/Get callers, with StartGC and
// with a second Close. Oracle: when Close returns the sweeper is gone (it is neither inside a
// datastore call nor issues one later), callers finish, nothing is left at the end.
// (The provider manager's Close is explored by TestVMC_C07conc, registered as a part of C14.)

type c14vcfg struct {
	scenario string
}

func c14vConfigs(tier string) []vmc.Cfg {
	var out []vmc.Cfg
	for _, s := range []string{"sweep-running", "sweep-running+put+get", "sweep-running+two-closers", "idle", "start-vs-close", "never-started", "start-close-start"} {
		out = append(out, vmc.Cfg{Name: "valuestore/" + s, Budget: 100, Data: c14vcfg{s}})
	}
	return out
}

func TestVMC_C14records(t *testing.T) {
	vmc.Main(t, vmc.Harness{ID: "C14", Configs: c14vConfigs, Run: c14vRun, Bubble: true, ShardSubtree: true})
}

func c14vLeaks() []string {
	var real []string
	for _, g := range vmc.LeakedGoroutines() {
		if strings.Contains(g, "synctest.") {
			continue
		}
		real = append(real, g)
	}
	return real
}

func c14vRun(x *vmc.X, cfg vmc.Cfg) {
	c := cfg.Data.(c14vcfg)
	ctx, cancelAll := context.WithCancel(context.Background())
	defer cancelAll()
	store := jds.New()
	vs := NewValueStore(store, sim.Validator(), c05MaxAge)
	defer vs.Close()
	// two records that are expired when the sweep runs, one fresh
	for _, k := range []string{kA, kB} {
		if err := vs.Put(ctx, k, c05Rec(k, 1, "x")); err != nil {
			x.Failf("C14/setup", "%v", err)
			return
		}
	}
	const every = 10 * time.Second
	time.Sleep(c05MaxAge - every + 1)
	if err := vs.Put(ctx, kA2, c05Rec(kA2, 1, "fresh")); err != nil {
		x.Failf("C14/setup", "%v", err)
		return
	}
	s := vmc.NewSched(x)
	gcOps := 0
	store.Hook = func(op, key string) error {
		s.Point(op + " " + key)
		return nil
	}
	started := c.scenario != "start-vs-close" && c.scenario != "never-started" && c.scenario != "start-close-start"
	if started {
		vs.StartGC(ctx, every)
	}
	if strings.HasPrefix(c.scenario, "sweep-running") {
		time.Sleep(every) // the sweep starts and parks at its first datastore call
		synctest.Wait()
		if len(s.ParkedOthers()) == 0 {
			x.Failf("C14/setup", "the sweep did not start")
			s.Finish()
			return
		}
	}
	_ = gcOps
	closers := []string{"closer"}
	if c.scenario == "sweep-running+two-closers" {
		closers = append(closers, "closer2")
	}
	closeErr := map[string]error{}
	for _, n := range closers {
		n := n
		s.Go(n, func() { closeErr[n] = vs.Close() })
	}
	var putErr, getErr error
	if c.scenario == "sweep-running+put+get" {
		s.Go("put", func() { putErr = vs.Put(ctx, kB, c05Rec(kB, 2, "new")) })
		s.Go("get", func() { _, getErr = vs.Get(ctx, kA) })
	}
	if c.scenario == "start-vs-close" || c.scenario == "start-close-start" {
		s.Go("starter", func() { vs.StartGC(ctx, every) })
	}
	if c.scenario == "start-close-start" {
		s.Go("starter2", func() { vs.StartGC(ctx, every) })
	}
	seen := map[string]bool{}
	for steps := 0; steps < 600; steps++ {
		synctest.Wait()
		for _, n := range closers {
			if s.Done(n) && !seen[n] {
				seen[n] = true
				// a sweeper started by a StartGC that ran after this Close is not this Close's business
				if c.scenario == "start-vs-close" || c.scenario == "start-close-start" {
					continue
				}
				if left := s.ParkedOthers(); len(left) > 0 {
					x.Failf("C14/valuestore/close-returned-early", "%s: Close returned while the sweeper is still inside %v", c.scenario, left)
					s.Finish()
					return
				}
			}
		}
		if len(s.Parked()) == 0 {
			break
		}
		s.Step(nil)
	}
	synctest.Wait()
	if !s.AllDone() {
		x.Failf("C14/valuestore/deadlock", "%s: threads %v cannot finish (parked %v); goroutines %v", c.scenario, s.Unfinished(), s.Parked(), c14vLeaks())
		s.Finish()
		return
	}
	for n, e := range closeErr {
		if e != nil {
			x.Failf("C14/valuestore/close-error", "%s: %v", n, e)
		}
	}
	if putErr != nil || getErr != nil {
		x.Failf("C14/valuestore/op-error", "put=%v get=%v", putErr, getErr)
	}
	// no sweep may start after Close: let several intervals pass with the scheduler still active
	if started {
		time.Sleep(3 * every)
		synctest.Wait()
		if left := s.ParkedOthers(); len(left) > 0 {
			x.Failf("C14/valuestore/sweep-after-close", "%s: a sweep started after Close returned: %v", c.scenario, left)
			s.Finish()
			return
		}
	}
	s.Finish()
	store.Hook = nil
	// repeated Close; and a sweeper started by a late StartGC is stopped by Close or by its context
	second := make(chan error, 1)
	go func() { second <- vs.Close() }()
	synctest.Wait()
	select {
	case e := <-second:
		if e != nil {
			x.Failf("C14/valuestore/second-close-error", "%v", e)
		}
	default:
		x.Failf("C14/valuestore/second-close-hangs", "%s: goroutines %v", c.scenario, c14vLeaks())
		return
	}
	synctest.Wait()
	if left := c14vLeaks(); len(left) > 0 {
		x.Failf("C14/valuestore/leak", "%s: after Close (twice) %d goroutine(s) remain: %v", c.scenario, len(left), left)
	}
	// the store still answers (Close does not fence reads and writes)
	if _, err := vs.Get(ctx, kA2); err != nil {
		x.Failf("C14/valuestore/get-after-close", "%v", err)
	}
	x.Eval(started)
	x.Outcome("%s closed", c.scenario)
	_ = fmt.Sprint
}
