//go:build verif

package dht

import (
	"context"
	"fmt"
	"sort"
	"strings"
	"testing"
	"testing/synctest"
	"time"

	"github.com/libp2p/go-libp2p/core/event"
	"github.com/libp2p/go-libp2p/core/network"
	"github.com/libp2p/go-libp2p/core/peer"
	"github.com/libp2p/go-libp2p/core/protocol"

	"github.com/libp2p/go-libp2p-kad-dht/internal/vmc"
	"github.com/libp2p/go-libp2p-kad-dht/internal/vmc/kid"
	"github.com/libp2p/go-libp2p-kad-dht/internal/vmc/sim"
)

// C12: routing-table members have proven themselves; failed peers leave. Histories (E4 without
// pruning) of connection / identify / protocol / lookup / refresh / clock / behaviour-change events.

type c12cfg struct {
	filterRejectsP2 bool
	depth           int
	beta            int
}

func c12Configs(tier string) []vmc.Cfg {
	d := 4
	if tier == "thorough" {
		d = 5
	}
	return []vmc.Cfg{
		{Name: fmt.Sprintf("hist/filter-accepts-all/beta3/depth%d", d), Data: c12cfg{false, d, 3}},
		{Name: fmt.Sprintf("hist/filter-rejects-p2/beta3/depth%d", d), Data: c12cfg{true, d, 3}},
		{Name: fmt.Sprintf("hist/filter-accepts-all/beta1/depth%d", d), Data: c12cfg{false, d, 1}},
	}
}

func TestVMC_C12(t *testing.T) {
	vmc.Main(t, vmc.Harness{ID: "C12", Configs: c12Configs, Run: c12Run, Bubble: true, ShardSubtree: true})
}

func c12Run(x *vmc.X, cfg vmc.Cfg) {
	c := cfg.Data.(c12cfg)
	const K = 3
	w := sim.NewWorld(lhSelf, K)
	p1, p2, p3 := kid.Peer("000", 2), kid.Peer("100", 2), kid.Peer("111", 2)
	w.Add("p1", p1, sim.BAll)
	w.Add("p2", p2, sim.BAll)
	w.Add("p3", p3, sim.BAll)
	for _, p := range w.Peers {
		p.Knows = []peer.ID{p1, p2, p3}
	}
	opts := []Option{}
	if c.filterRejectsP2 {
		opts = append(opts, RoutingTableFilter(func(_ any, p peer.ID) bool { return p != p2 }))
	}
	l, err := newLH(x, w, lhParams{k: K, alpha: 3, beta: c.beta, opts: opts})
	if err != nil {
		x.Failf("C12/setup", "%v", err)
		return
	}
	closed := false
	defer func() {
		if !closed {
			l.close()
		} else {
			l.cancel()
			l.h.Close()
		}
	}()
	proto := protocol.ID("/sim/kad/1.0.0")
	hasProto := map[peer.ID]bool{}
	// oracle state
	step := 0
	lookupSuccess := map[peer.ID]bool{} // answered a query of a lookup / refresh (any request inside such an operation)
	probeOK := map[peer.ID]bool{}       // answered an admission probe while advertising the protocol and passing the filter
	lastGood := map[peer.ID]int{}       // step of the latest correct answer
	lastBad := map[peer.ID]int{}        // step of the latest processed failure in an uncancelled operation / protocol loss
	for _, p := range []peer.ID{p1, p2, p3} {
		lastGood[p], lastBad[p] = -1, -1
	}
	logPos := 0
	// fold consumes the new log entries of the operation that just ran.
	fold := func(kind string, cancelled bool) {
		for ; logPos < len(l.net.Log); logPos++ {
			e := l.net.Log[logPos]
			if e.What == "abandon" && kind == "refresh" && !cancelled {
				// a liveness probe (FIND_NODE for the peer's own id) that ran into its timeout is a failed probe
				for _, f := range l.net.Log[:logPos] {
					if f.Seq == e.Seq && f.What == "req" && f.Key == string(e.To) {
						step++
						lastBad[e.To] = step
					}
				}
				continue
			}
			if e.What != "deliver" || e.Instant {
				continue
			}
			step++
			if e.Err != "" {
				if !cancelled {
					lastBad[e.To] = step
				}
				continue
			}
			if e.Kind != "req" {
				continue
			}
			lastGood[e.To] = step
			// an admission probe / liveness ping asks the peer for its own id; everything else is a lookup query
			if e.Key != string(e.To) {
				lookupSuccess[e.To] = true
			} else {
				if hasProto[e.To] && !(c.filterRejectsP2 && e.To == p2) {
					probeOK[e.To] = true
				}
			}
		}
	}
	p2Last := false
	deliverAll := func() bool {
		for n := 0; n < 400; n++ {
			synctest.Wait()
			var pend []*sim.Pending
			for _, pe := range l.net.PendingEvents() {
				if w.Peers[pe.To] != nil && w.Peers[pe.To].Behaviour == sim.BHang && pe.Kind != "dial" {
					continue // never answered: ends with its context
				}
				pend = append(pend, pe)
			}
			if p2Last {
				var first, last []*sim.Pending
				for _, pe := range pend {
					if pe.To == p2 {
						last = append(last, pe)
					} else {
						first = append(first, pe)
					}
				}
				pend = append(first, last...)
			}
			if len(pend) == 0 {
				return true
			}
			time.Sleep(3 * time.Millisecond)
			l.net.Deliver(pend[0])
		}
		x.Failf("C12/runaway", "more than 400 deliveries in one operation")
		return false
	}
	check := func(after string) bool {
		members := l.d.RoutingTable().ListPeers()
		in := map[peer.ID]bool{}
		for _, m := range members {
			in[m] = true
			if m == w.Self {
				x.Failf("C12/self-in-table", "after %s: the local node is a routing-table member", after)
				return false
			}
			if !lookupSuccess[m] && !probeOK[m] {
				x.Failf("C12/unproven-member", "after %s: %s is a member but never answered a lookup query nor an admission probe while advertising the protocol and passing the filter (answers so far: %v)", after, w.Name(m), lastGood[m] >= 0)
				return false
			}
		}
		for _, p := range []peer.ID{p1, p2, p3} {
			if in[p] && lastBad[p] > lastGood[p] {
				x.Failf("C12/failed-member-stays", "after %s: %s is still a member although its latest processed outcome is a failure / protocol loss (good@%d bad@%d)", after, w.Name(p), lastGood[p], lastBad[p])
				return false
			}
		}
		return true
	}
	identify := func(p peer.ID, withProto bool) {
		if withProto {
			_ = l.h.Peerstore().AddProtocols(p, proto)
		} else {
			_ = l.h.Peerstore().RemoveProtocols(p, proto)
		}
		hasProto[p] = withProto
		if l.h.Network().Connectedness(p) != network.Connected {
			l.h.AddConn(p, network.DirOutbound, nil)
		}
	}
	type op struct {
		name string
		run  func() bool
	}
	refreshOp := func(force bool) func() bool {
		return func() bool {
			var ch <-chan error
			if force {
				ch = l.d.ForceRefresh()
			} else {
				ch = l.d.RefreshRoutingTable()
			}
			if !deliverAll() {
				return false
			}
			// with a hanging peer every query of the refresh runs into its 10 s timeout, one after the other
			for round := 0; round < 60 && len(ch) == 0; round++ {
				time.Sleep(11 * time.Second)
				if !deliverAll() {
					return false
				}
			}
			fold("refresh", false)
			select {
			case _, ok := <-ch:
				if !ok {
					x.Failf("C12/refresh-channel-closed-without-value", "the refresh channel was closed without yielding a value")
					return false
				}
			default:
				x.Failf("C12/refresh-unanswered", "the refresh request has no answer although nothing is pending (closed=%v)", closed)
				return false
			}
			select {
			case _, ok := <-ch:
				if ok {
					x.Failf("C12/refresh-two-values", "the refresh channel yielded a second value")
					return false
				}
			default:
				x.Failf("C12/refresh-channel-not-closed", "the refresh channel was not closed after its value")
				return false
			}
			return true
		}
	}
	setBeh := func(b string) func() bool {
		return func() bool {
			w.Peers[p2].Behaviour = b
			if b == sim.BDialFail || b == sim.BSlowDial {
				l.h.Disconnect(p2)
				synctest.Wait()
			}
			return true
		}
	}
	ops := []op{
		{"identify(p1,+dht)", func() bool {
			identify(p1, true)
			l.h.Emit(event.EvtPeerIdentificationCompleted{Peer: p1})
			ok := deliverAll()
			fold("probe", false)
			return ok
		}},
		{"identify(p2,+dht)", func() bool {
			identify(p2, true)
			l.h.Emit(event.EvtPeerIdentificationCompleted{Peer: p2})
			ok := deliverAll()
			fold("probe", false)
			return ok
		}},
		{"identify(p2,-dht)", func() bool {
			had := hasProto[p2]
			identify(p2, false)
			l.h.Emit(event.EvtPeerIdentificationCompleted{Peer: p2})
			ok := deliverAll()
			fold("probe", false)
			if had || true {
				step++
				lastBad[p2] = step // reported as not supporting the protocol
			}
			return ok
		}},
		{"protocols(p2,-dht)", func() bool {
			_ = l.h.Peerstore().RemoveProtocols(p2, proto)
			hasProto[p2] = false
			l.h.Emit(event.EvtPeerProtocolsUpdated{Peer: p2, Removed: []protocol.ID{proto}})
			ok := deliverAll()
			fold("probe", false)
			step++
			lastBad[p2] = step
			return ok
		}},
		{"protocols(p2,+dht)", func() bool {
			identify(p2, true)
			l.h.Emit(event.EvtPeerProtocolsUpdated{Peer: p2, Added: []protocol.ID{proto}})
			ok := deliverAll()
			fold("probe", false)
			return ok
		}},
		{"lookup-p2-last", func() bool {
			p2Last = true
			defer func() { p2Last = false }()
			done := make(chan struct{})
			ctx, cancel := context.WithTimeout(l.ctx, 30*time.Second)
			defer cancel()
			go func() { l.d.GetClosestPeers(ctx, kid.KeyWithPrefix("v", "010", 0)); close(done) }()
			if !deliverAll() {
				return false
			}
			synctest.Wait()
			select {
			case <-done:
			default:
				time.Sleep(31 * time.Second)
				if !deliverAll() {
					return false
				}
			}
			fold("lookup", false)
			select {
			case <-done:
			default:
				x.Failf("C12/lookup-hang", "lookup has not returned")
				return false
			}
			return true
		}},
		{"lookup", func() bool {
			done := make(chan struct{})
			ctx, cancel := context.WithTimeout(l.ctx, 30*time.Second)
			defer cancel()
			go func() { l.d.GetClosestPeers(ctx, kid.KeyWithPrefix("v", "010", 0)); close(done) }()
			if !deliverAll() {
				return false
			}
			synctest.Wait()
			select {
			case <-done:
			default:
				time.Sleep(31 * time.Second)
				if !deliverAll() {
					return false
				}
			}
			fold("lookup", false)
			select {
			case <-done:
			default:
				x.Failf("C12/lookup-hang", "lookup has not returned")
				return false
			}
			return true
		}},
		{"lookup-cancelled", func() bool {
			before := fmt.Sprint(sortedNames(w, l.d.RoutingTable().ListPeers()))
			ctx, cancel := context.WithCancel(l.ctx)
			done := make(chan struct{})
			go func() { l.d.GetClosestPeers(ctx, kid.KeyWithPrefix("v", "010", 0)); close(done) }()
			synctest.Wait()
			cancel()
			synctest.Wait()
			if !deliverAll() {
				return false
			}
			fold("lookup", true)
			if after := fmt.Sprint(sortedNames(w, l.d.RoutingTable().ListPeers())); after != before {
				x.Failf("C12/cancellation-changed-table", "a lookup cancelled before any answer changed the routing table from %s to %s", before, after)
				return false
			}
			return true
		}},
		{"refresh", refreshOp(false)},
		{"force-refresh", refreshOp(true)},
		{"clock+1h", func() bool { time.Sleep(time.Hour); return deliverAll() }},
		{"p2:=req-fail", setBeh(sim.BReqFail)},
		{"p2:=silent", setBeh(sim.BSilent)},
		{"p2:=dial-fail", setBeh(sim.BDialFail)},
		{"p2:=empty", setBeh(sim.BEmpty)},
		{"p2:=honest", setBeh(sim.BAll)},
		{"p2:=slow-dial", setBeh(sim.BSlowDial)},
		{"p2:=hang", setBeh(sim.BHang)},
		{"close", func() bool {
			if closed {
				return true
			}
			closed = true
			if err := l.d.Close(); err != nil {
				x.Failf("C12/close-error", "%v", err)
				return false
			}
			return true
		}},
	}
	hist := ""
	for d := 0; d < c.depth; d++ {
		i := x.Choose(len(ops)+1, vmc.Free, "op")
		if i == len(ops) {
			break
		}
		o := ops[i]
		if closed && o.name != "refresh" && o.name != "force-refresh" && o.name != "close" {
			continue
		}
		x.Obs("%s", o.name)
		hist += o.name + ";"
		stepBefore := step
		before := map[peer.ID]bool{}
		for _, m := range l.d.RoutingTable().ListPeers() {
			before[m] = true
		}
		if !o.run() {
			return
		}
		synctest.Wait()
		// background admissions triggered by the operation (fix-low-peers probes etc.)
		if !closed {
			if !deliverAll() {
				return
			}
			fold("probe", false)
			if !check(hist) {
				return
			}
			now := map[peer.ID]bool{}
			for _, m := range l.d.RoutingTable().ListPeers() {
				now[m] = true
			}
			for m := range before {
				if !now[m] && lastBad[m] <= stepBefore && strings.HasPrefix(o.name, "lookup") {
					x.Failf("C12/member-evicted-without-cause", "after %s: %s left the routing table during a lookup in which none of its dials or requests failed", hist, w.Name(m))
					return
				}
			}
		}
	}
	x.Outcome("%v", sortedNames(w, l.d.RoutingTable().ListPeers()))
}

func sortedNames(w *sim.World, ids []peer.ID) []string {
	n := w.Names(ids)
	sort.Strings(n)
	return n
}
