//go:build verif

package crawler

import (
	"context"
	"fmt"
	"sort"
	gosync "sync"
	"testing"
	"testing/synctest"

	"github.com/libp2p/go-libp2p/core/host"
	"github.com/libp2p/go-libp2p/core/peer"
	"github.com/libp2p/go-libp2p/core/protocol"

	"github.com/libp2p/go-libp2p-kad-dht/internal/vmc"
	"github.com/libp2p/go-libp2p-kad-dht/internal/vmc/kid"
	"github.com/libp2p/go-libp2p-kad-dht/internal/vmc/sim"
	pb "github.com/libp2p/go-libp2p-kad-dht/pb"
)

// C16 part "crawler": the real DefaultCrawler over instantly answering simulated peers; every
// directed knowledge graph on <=4 peers x failing subsets x seed lists (input enumeration: the
// crawler's own select between results and jobs is resolved at random by Go, so arrival orders
// cannot be replayed; the oracle only uses order-independent facts).

type c16ccfg struct {
	n         int
	chunk, of int
	step      int // n=4: every step-th graph of the 4096
}

func c16cConfigs(tier string) []vmc.Cfg {
	var out []vmc.Cfg
	for i := 0; i < 4; i++ {
		out = append(out, vmc.Cfg{Name: fmt.Sprintf("crawler/n3/%d-of-4", i), Data: c16ccfg{3, i, 4, 1}})
	}
	chunks, step := 28, 5 // quick: every 5th graph on 4 peers (full behaviour/seed product)
	if tier == "thorough" {
		chunks, step = 112, 1 // every graph
	}
	for i := 0; i < chunks; i++ {
		out = append(out, vmc.Cfg{Name: fmt.Sprintf("crawler/n4/every%d/%d-of-%d", step, i, chunks), Data: c16ccfg{4, i, chunks, step}})
	}
	return out
}

func TestVMC_C16crawler(t *testing.T) {
	vmc.Main(t, vmc.Harness{ID: "C16", Configs: c16cConfigs, Run: c16cRun, Bubble: true})
}

func c16cRun(x *vmc.X, cfg vmc.Cfg) {
	c := cfg.Data.(c16ccfg)
	n := c.n
	cells := []string{"000", "010", "100", "110"}
	ids := make([]peer.ID, n)
	for i := range ids {
		ids[i] = kid.Peer(cells[i], 4)
	}
	self := kid.Peer("0110", 4)
	edges := n * (n - 1)
	behs := []string{sim.BAll, sim.BDialFail, sim.BReqFail, sim.BAllThenFail} // at most one peer of the last kind per world
	seedLists := [][]int{{0}, {0, 1}, {0, 0}, {1, 0, 1}, {-1, 1}, {n - 1}, {0, -100}, {1, 0, -101}} // -1: peer 0 without addresses
	// -100 / -101: peer 0 / peer 1 names the peers it knows by id only (seed C16-i): a peer first heard of
	// without an address is still a peer reachable from the seeds and gets exactly one outcome
	idx := 0
	quick := x.Tracing() // unused
	_ = quick
	stepG := max(c.step, 1)
	for g := 0; g < 1<<edges; g += stepG {
		total := 1
		for i := 0; i < n; i++ {
			total *= len(behs)
		}
		for bm := 0; bm < total; bm++ {
			late := 0
			for bb, i := bm, 0; i < n; i, bb = i+1, bb/len(behs) {
				if bb%len(behs) == 3 {
					late++
				}
			}
			if late > 1 {
				continue
			}
			for si, seeds := range seedLists {
				idx++
				if idx%c.of != c.chunk {
					continue
				}
				w := sim.NewWorld(self, 20)
				bb := bm
				e := 0
				for i, id := range ids {
					p := w.Add(fmt.Sprintf("p%d", i), id, behs[bb%len(behs)])
					bb /= len(behs)
					for j := range ids {
						if j == i {
							continue
						}
						if g&(1<<e) != 0 {
							p.Knows = append(p.Knows, ids[j])
						}
						e++
					}
				}
				for _, sd := range seeds {
					if sd <= -100 {
						w.Peers[ids[-100-sd]].OmitAddrs = true
					}
				}
				if !c16cOne(x, w, ids, seeds, fmt.Sprintf("graph=%0*b behaviours=%d seeds#%d%v", edges, g, bm, si, seeds)) {
					return
				}
			}
		}
	}
}

func c16cOne(x *vmc.X, w *sim.World, ids []peer.ID, seeds []int, shape string) bool {
	net := sim.NewNet(w)
	net.Instant = true
	h := sim.NewHost(w.Self)
	defer h.Close()
	h.DialFn = net.Dial
	cr, err := NewDefaultCrawler(h, WithParallelism(2), WithCustomMessageSender(func(_ host.Host, protos []protocol.ID) pb.MessageSenderWithDisconnect {
		return net.Sender("crawl")
	}))
	if err != nil {
		x.Failf("C16/crawler-setup", "%v", err)
		return false
	}
	var start []*peer.AddrInfo
	reach := map[peer.ID]bool{}
	var queue []peer.ID
	for _, s := range seeds {
		if s <= -100 {
			continue
		}
		if s < 0 {
			start = append(start, &peer.AddrInfo{ID: ids[0]})
			continue
		}
		ai := peer.AddrInfo{ID: ids[s], Addrs: w.Peers[ids[s]].Addrs}
		start = append(start, &ai)
		if !reach[ids[s]] {
			reach[ids[s]] = true
			queue = append(queue, ids[s])
		}
	}
	// reference: peers reachable from the seeds through peers that answer
	for len(queue) > 0 {
		p := queue[0]
		queue = queue[1:]
		if w.Peers[p].Behaviour != sim.BAll {
			continue
		}
		for _, q := range w.Peers[p].Knows {
			if !reach[q] {
				reach[q] = true
				queue = append(queue, q)
			}
		}
	}
	var mu gosync.Mutex
	succ := map[peer.ID]int{}
	fail := map[peer.ID]int{}
	cr.Run(context.Background(), start,
		func(p peer.ID, _ []*peer.AddrInfo) { mu.Lock(); succ[p]++; mu.Unlock() },
		func(p peer.ID, _ error) { mu.Lock(); fail[p]++; mu.Unlock() })
	synctest.Wait()
	reqs := map[peer.ID]int{}
	dials := map[peer.ID]int{}
	for _, e := range net.Log {
		if e.What == "req" {
			reqs[e.To]++
		}
		if e.What == "dial" {
			dials[e.To]++
		}
	}
	names := func(m map[peer.ID]bool) []string {
		var o []string
		for p := range m {
			o = append(o, w.Name(p))
		}
		sort.Strings(o)
		return o
	}
	for _, p := range ids {
		pe := w.Peers[p]
		outcomes := succ[p] + fail[p]
		if !reach[p] {
			if outcomes != 0 || reqs[p] != 0 || dials[p] != 0 {
				x.Failf("C16/crawler-unreachable-peer-contacted", "%s: %s is not reachable from the seeds but was contacted", shape, w.Name(p))
				return false
			}
			continue
		}
		if outcomes != 1 {
			x.Failf("C16/crawler-outcomes", "%s: %s (reachable set %v) got %d success and %d failure callbacks, expected exactly one outcome", shape, w.Name(p), names(reach), succ[p], fail[p])
			return false
		}
		switch pe.Behaviour {
		case sim.BAll:
			if reqs[p] != 16 {
				x.Failf("C16/crawler-queried-not-once", "%s: %s received %d FIND_NODE requests, one crawl of a peer is 16", shape, w.Name(p), reqs[p])
				return false
			}
			if (len(pe.Knows) > 0) != (succ[p] == 1) {
				x.Failf("C16/crawler-wrong-outcome", "%s: %s knows %d peers, success callbacks %d", shape, w.Name(p), len(pe.Knows), succ[p])
				return false
			}
		case sim.BAllThenFail:
			// what it said before it broke down is dropped: one failure outcome, and the crawl of this peer stops
			if reqs[p] != 4 || fail[p] != 1 || succ[p] != 0 {
				x.Failf("C16/crawler-partial-failure", "%s: %s answered three requests and failed the fourth: %d requests, %d success and %d failure callbacks (expected 4, 0, 1)", shape, w.Name(p), reqs[p], succ[p], fail[p])
				return false
			}
		case sim.BReqFail:
			if reqs[p] != 1 || fail[p] != 1 {
				x.Failf("C16/crawler-failed-peer", "%s: failing peer %s got %d requests and %d failure callbacks", shape, w.Name(p), reqs[p], fail[p])
				return false
			}
		case sim.BDialFail:
			if dials[p] != 1 || reqs[p] != 0 || fail[p] != 1 {
				x.Failf("C16/crawler-undialable-peer", "%s: undialable peer %s: %d dials, %d requests, %d failure callbacks", shape, w.Name(p), dials[p], reqs[p], fail[p])
				return false
			}
		}
	}
	x.Eval(len(reach) > 1)
	return true
}
