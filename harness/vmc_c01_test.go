//go:build verif

package dht

import (
	"context"
	"fmt"

	"github.com/libp2p/go-libp2p/core/host"
	"github.com/libp2p/go-libp2p/core/network"

	"sort"
	"strings"
	"testing"

	"github.com/ipfs/go-cid"
	"github.com/libp2p/go-libp2p/core/peer"
	"github.com/libp2p/go-libp2p/core/routing"
	mh "github.com/multiformats/go-multihash"

	"github.com/libp2p/go-libp2p-kad-dht/internal/vmc"
	"github.com/libp2p/go-libp2p-kad-dht/internal/vmc/kid"
	"github.com/libp2p/go-libp2p-kad-dht/internal/vmc/sim"
	pb "github.com/libp2p/go-libp2p-kad-dht/pb"
)

// C01: GetClosestPeers on worlds x arrival orders; oracle recomputed from the simulator's log.

type c01cfg struct {
	n          int
	k, a, b    int
	behaviours []string // per peer
	knowledge  string   // "full", "chain", "star"
	seeds      []int
	keyCell    string
	c02        bool // run the C02 oracles too (termination rule, every returned peer was asked)
	diversity  bool // configure the routing-table IP diversity filter (the query then also filters responses by IP group)
	// op selects the lookup that is driven: "" = GetClosestPeers; "findpeer", "providers", "value" = the lookups of
	// FindPeer / FindProvidersAsync / GetValue for a target nobody has (they run to completion like a closest-peers
	// lookup; only the per-response rules are checked for them, not the returned value)
	op string
}

var c01Cells = []string{"000", "001", "010", "100", "110", "111"}
var c01Names = []string{"a", "b", "c", "d", "e", "f"}

func c01World(c c01cfg) (*sim.World, []peer.ID) {
	w := sim.NewWorld(lhSelf, c.k)
	ids := make([]peer.ID, c.n)
	for i := 0; i < c.n; i++ {
		ids[i] = kid.Peer(c01Cells[i], 0)
		w.Add(c01Names[i], ids[i], c.behaviours[i])
	}
	w.Far = kid.Peer("111", 3)
	w.Filtered = kid.Peer("001", 3)
	for i := 0; i < 2*c.k+3; i++ {
		w.Fillers = append(w.Fillers, kid.Peer("11", 10+i))
	}
	for i, id := range ids {
		p := w.Peers[id]
		switch c.knowledge {
		case "full":
			p.Knows = append([]peer.ID{}, ids...)
		case "chain":
			p.Knows = []peer.ID{ids[(i+1)%c.n]}
			if c.n > 2 {
				p.Knows = append(p.Knows, ids[(i+2)%c.n])
			}
		case "star":
			if i == 0 {
				p.Knows = append([]peer.ID{}, ids...)
			} else {
				p.Knows = []peer.ID{ids[0]}
			}
		}
	}
	return w, ids
}

func c01Configs(tier string) []vmc.Cfg {
	lying := []string{sim.BAll, sim.BListsSelf, sim.BListsReq, sim.BListsFar, sim.BDup, sim.BFlood, sim.BFloodFront, sim.BFiltered, sim.BEmpty}
	failing := []string{sim.BDialFail, sim.BReqFail, sim.BSilent}
	type kab struct{ k, a, b int }
	kabs := []kab{{2, 2, 1}, {2, 1, 1}, {3, 3, 2}, {1, 1, 1}}
	ns := []int{4}
	knows := []string{"full", "chain"}
	keys := []string{"000"}
	if tier == "thorough" {
		kabs = []kab{{1, 1, 1}, {2, 1, 1}, {2, 2, 1}, {2, 2, 2}, {3, 2, 2}, {3, 3, 3}, {2, 3, 1}}
		ns = []int{3, 4, 5}
		knows = []string{"full", "chain", "star"}
		keys = []string{"000", "101"}
	}
	var out []vmc.Cfg
	for _, n := range ns {
		// behaviour assignments: at most one lying peer and at most one failing peer (quick);
		// thorough adds every pair of failing peers
		var assigns [][]string
		base := make([]string, n)
		for i := range base {
			base[i] = sim.BHonest
		}
		assigns = append(assigns, append([]string{}, base...))
		for i := 0; i < n; i++ {
			for _, lb := range append(append([]string{}, lying...), failing...) {
				a := append([]string{}, base...)
				a[i] = lb
				assigns = append(assigns, a)
				for j := 0; j < n; j++ {
					if j == i {
						continue
					}
					for _, fb := range failing {
						if contains(failing, lb) && j < i {
							continue
						}
						a2 := append([]string{}, a...)
						a2[j] = fb
						assigns = append(assigns, a2)
					}
				}
			}
		}
		// seed subsets of size 1..2 (thorough: ..3)
		var seeds [][]int
		maxSeed := 2
		if tier == "thorough" {
			maxSeed = 3
		}
		for m := 1; m < 1<<n; m++ {
			var s []int
			for i := 0; i < n; i++ {
				if m&(1<<i) != 0 {
					s = append(s, i)
				}
			}
			if len(s) <= maxSeed {
				seeds = append(seeds, s)
			}
		}
		for _, kb := range kabs {
			for _, kn := range knows {
				for _, key := range keys {
					for _, as := range assigns {
						for _, sd := range seeds {
							c := c01cfg{n: n, k: kb.k, a: kb.a, b: kb.b, behaviours: as, knowledge: kn, seeds: sd, keyCell: key}
							name := fmt.Sprintf("n%d/k%da%db%d/%s/key%s/%s/seeds%v", n, kb.k, kb.a, kb.b, kn, key, strings.Join(as, ","), sd)
							out = append(out, vmc.Cfg{Name: name, Data: c})
						}
					}
				}
			}
		}
	}
	return out
}

func contains(l []string, s string) bool {
	for _, e := range l {
		if e == s {
			return true
		}
	}
	return false
}

func TestVMC_C01(t *testing.T) {
	vmc.Main(t, vmc.Harness{ID: "C01", Configs: c01Configs, Run: c01Run, Bubble: true})
}

type lookupOutcome struct {
	peers []peer.ID
	err   error
}

func c01Run(x *vmc.X, cfg vmc.Cfg) {
	c := cfg.Data.(c01cfg)
	w, ids := c01World(c)
	key := kid.KeyWithPrefix("v", c.keyCell, 0)
	var opMh mh.Multihash
	var opPeer peer.ID
	switch c.op {
	case "providers":
		opMh = kid.Mh(c.keyCell, 0)
		key = string(opMh)
	case "findpeer":
		opPeer = kid.Peer(c.keyCell, 7)
		key = string(opPeer)
	}
	filtered := w.Filtered
	opts := []Option{QueryFilter(func(_ any, ai peer.AddrInfo) bool { return ai.ID != filtered })}
	var hostOpts func(h host.Host) []Option
	if c.diversity {
		hostOpts = func(h host.Host) []Option {
			return []Option{RoutingTablePeerDiversityFilter(NewRTPeerDiversityFilter(h, 3, 3))}
		}
	}
	l, err := newLH(x, w, lhParams{k: c.k, alpha: c.a, beta: c.b, opts: opts, hostOpts: hostOpts})
	if err != nil {
		x.Failf("C01/setup", "%v", err)
		return
	}
	defer l.close()
	var seedIDs []peer.ID
	for _, i := range c.seeds {
		seedIDs = append(seedIDs, ids[i])
		if c.diversity {
			l.h.AddConn(ids[i], network.DirOutbound, nil) // the diversity filter reads a member's address from its connection
		}
	}
	table := l.seed(seedIDs)
	seeds := sim.SortByDistance(table, key)
	if len(seeds) > c.k {
		seeds = seeds[:c.k]
	}
	resCh := make(chan lookupOutcome, 1)
	go func() {
		switch c.op {
		case "findpeer":
			_, err := l.d.FindPeer(l.ctx, opPeer)
			resCh <- lookupOutcome{nil, err}
		case "providers":
			n := 0
			for range l.d.FindProvidersAsync(l.ctx, cid.NewCidV1(cid.Raw, opMh), 1) {
				n++
			}
			resCh <- lookupOutcome{nil, fmt.Errorf("%d providers", n)}
		case "value":
			_, err := l.d.GetValue(l.ctx, key)
			resCh <- lookupOutcome{nil, err}
		default:
			ps, err := l.d.GetClosestPeers(l.ctx, key)
			resCh <- lookupOutcome{ps, err}
		}
	}()
	tr := newC01Track(x, l, c.k, key, seeds)
	if c.c02 {
		tr.beta = c.b
	}
	l.onStep = tr.step
	l.stateKey = tr.stateKey
	var out *lookupOutcome
	if !l.runToCompletion("C01", func() bool {
		select {
		case r := <-resCh:
			out = &r
			return true
		default:
			return false
		}
	}, 300) {
		return
	}
	if c.op != "" {
		// the other lookups: every response event was checked against the delivered answer (2K cap, self and
		// filtered peers removed) as it was published; nobody has the target, so nothing is found
		if !tr.step() {
			return
		}
		if len(seeds) > 0 && tr.termStep < 0 {
			x.Failf("C01/no-terminate-event", "%s: no LookupTerminateEvent was published", c.op)
			return
		}
		want := map[string]string{"findpeer": routing.ErrNotFound.Error(), "providers": "0 providers", "value": routing.ErrNotFound.Error()}[c.op]
		if len(seeds) > 0 && (out.err == nil || out.err.Error() != want) {
			x.Failf("C10/lookup/result", "%s for a target nobody has returned %v, expected %q", c.op, out.err, want)
			return
		}
		x.Obs("%s err=%v", c.op, out.err)
		x.Outcome("%s %v", c.op, out.err)
		return
	}
	if !tr.final(out) {
		return
	}
	if c.c02 && out.err == nil {
		asked := map[peer.ID]bool{}
		for _, e := range l.net.Log {
			if e.What == "req" {
				asked[e.To] = true
			}
		}
		for _, p := range out.peers {
			if !asked[p] {
				x.Failf("C02/returned-peer-never-asked", "returned peer %s was never sent the request", w.Name(p))
				return
			}
		}
	}
	x.Obs("result %v err=%v", w.Names(out.peers), out.err)
	x.Outcome("%v", w.Names(out.peers))
}

// c01Track follows one lookup incrementally: the simulator's log is folded into the learned /
// failed / answered sets until the terminate event appears, and every published lookup event is
// checked as soon as it is drained (so that state pruning never skips an event check).
type c01Track struct {
	x         *vmc.X
	l         *lh
	k         int
	key       string
	seeds     []peer.ID
	learned   map[peer.ID]bool
	failed    map[peer.ID]bool
	answered  map[peer.ID][]peer.ID
	requested map[peer.ID]bool
	logPos    int
	evPos     int
	termStep  int
	cut       string
	first     bool
	nResp     int
	// beta > 0 enables the C02 termination oracle: at a completed/starvation terminate event the beta
	// nearest learned non-failed peers have answered
	beta int
}

func newC01Track(x *vmc.X, l *lh, k int, key string, seeds []peer.ID) *c01Track {
	t := &c01Track{x: x, l: l, k: k, key: key, seeds: seeds, learned: map[peer.ID]bool{}, failed: map[peer.ID]bool{},
		answered: map[peer.ID][]peer.ID{}, requested: map[peer.ID]bool{}, termStep: -1, first: true}
	for _, s := range seeds {
		t.learned[s] = true
	}
	t.logPos = len(l.net.Log)
	t.evPos = len(l.events)
	return t
}

func (t *c01Track) stateKey() string {
	if t.termStep >= 0 {
		return t.l.deliveredKey() + "|terminated-after:" + t.cut
	}
	return t.l.deliveredKey()
}

func (t *c01Track) step() bool {
	w := t.l.w
	x := t.x
	// 1. fold the new log entries (only deliveries made before the search phase ended count)
	for ; t.logPos < len(t.l.net.Log); t.logPos++ {
		e := t.l.net.Log[t.logPos]
		if e.What == "req" || e.What == "dial" {
			t.requested[e.To] = true
		}
		if e.What != "deliver" || e.Instant || t.termStep >= 0 {
			continue
		}
		if e.Err != "" {
			t.failed[e.To] = true
			continue
		}
		if e.Kind == "req" && e.Resp != nil {
			h := processedHeard(w, t.k, e.Resp)
			t.answered[e.To] = h
			for _, id := range h {
				t.learned[id] = true
			}
		}
	}
	// 2. check the events published in this step
	for ; t.evPos < len(t.l.events); t.evPos++ {
		ev := t.l.events[t.evPos].ev
		switch {
		case ev.Terminate != nil:
			if t.termStep < 0 {
				t.termStep = t.l.events[t.evPos].step
				t.cut = t.l.deliveredKey()
				if t.beta > 0 && !t.checkTermination(ev.Terminate.Reason.String()) {
					return false
				}
				if t.nResp != 1+len(t.answered)+len(t.failed) {
					x.Failf("C01/event-count", "%d response events before termination, expected 1 (seeds) + %d answers + %d failures", t.nResp, len(t.answered), len(t.failed))
					return false
				}
			}
		case ev.Request != nil:
			for _, p := range ev.Request.Waiting {
				// the request event precedes the dial/request; checked at the end (final)
				_ = p
			}
		case ev.Response != nil:
			if t.termStep >= 0 {
				x.Failf("C01/event-after-termination", "a response event was published after the terminate event")
				return false
			}
			t.nResp++
			r := ev.Response
			cause := peer.ID("")
			if r.Cause != nil {
				cause = r.Cause.Peer
			}
			var heard []peer.ID
			for _, h := range r.Heard {
				heard = append(heard, h.Peer)
			}
			if t.first {
				t.first = false
				if cause != w.Self || fmt.Sprint(w.Names(sim.SortByDistance(heard, t.key))) != fmt.Sprint(w.Names(t.seeds)) {
					x.Failf("C01/event-seeds", "first response event: cause %s heard %v, expected the seeds %v", w.Name(cause), w.Names(heard), w.Names(t.seeds))
					return false
				}
				continue
			}
			switch {
			case len(r.Queried) == 1 && len(r.Unreachable) == 0:
				want, ok := t.answered[r.Queried[0].Peer]
				if !ok || r.Queried[0].Peer != cause {
					x.Failf("C01/event-response-without-answer", "response event says %s answered, but no answer of it was delivered", w.Name(cause))
					return false
				}
				if fmt.Sprint(w.Names(heard)) != fmt.Sprint(w.Names(want)) {
					x.Failf("C01/event-heard-mismatch", "response event of %s lists heard %v, its answer (capped at 2K, without self and filtered peers) was %v", w.Name(cause), w.Names(heard), w.Names(want))
					return false
				}
			case len(r.Unreachable) == 1 && len(r.Queried) == 0:
				if !t.failed[r.Unreachable[0].Peer] || r.Unreachable[0].Peer != cause {
					x.Failf("C01/event-unreachable-without-failure", "response event says %s is unreachable, but no failure of it was delivered", w.Name(cause))
					return false
				}
				if len(heard) != 0 {
					x.Failf("C01/event-heard-from-failed", "unreachable event of %s carries heard peers", w.Name(cause))
					return false
				}
			default:
				x.Failf("C01/event-shape", "response event with %d queried and %d unreachable", len(r.Queried), len(r.Unreachable))
				return false
			}
		}
	}
	return true
}

func (t *c01Track) checkTermination(reason string) bool {
	x, w := t.x, t.l.w
	if reason != "completed" && reason != "starvation" {
		x.Failf("C02/termination-reason", "uncancelled lookup terminated with reason %q", reason)
		return false
	}
	var cand []peer.ID
	for p := range t.learned {
		if !t.failed[p] {
			cand = append(cand, p)
		}
	}
	cand = sim.SortByDistance(cand, t.key)
	unanswered := 0
	for _, p := range cand {
		if _, ok := t.answered[p]; !ok {
			unanswered++
		}
	}
	nb := t.beta
	if nb > len(cand) {
		nb = len(cand)
	}
	for _, p := range cand[:nb] {
		if _, ok := t.answered[p]; !ok && reason == "completed" {
			x.Failf("C02/terminated-too-early", "lookup completed although %s, one of the beta=%d nearest learned non-failed peers %v, has not answered", w.Name(p), t.beta, w.Names(cand[:nb]))
			return false
		}
	}
	if reason == "starvation" && unanswered > 0 {
		x.Failf("C02/starvation-with-unasked-peers", "lookup ended by starvation but %d learned non-failed peers have not answered", unanswered)
		return false
	}
	return true
}

// final checks the returned peers: shape, and equality with the K nearest of learned \ failed.
func (t *c01Track) final(out *lookupOutcome) bool {
	x, w, k, key := t.x, t.l.w, t.k, t.key
	if len(t.seeds) == 0 {
		if out.err == nil || len(out.peers) != 0 {
			x.Failf("C01/empty-table", "lookup on an empty routing table returned %v, %v", w.Names(out.peers), out.err)
			return false
		}
		return true
	}
	if !t.step() {
		return false
	}
	if t.termStep < 0 {
		x.Failf("C01/no-terminate-event", "no LookupTerminateEvent was published")
		return false
	}
	for _, e := range t.l.events {
		// (a request scheduled in the very step in which the search phase ended may find its path context
		// already cancelled before it dials - which of the two its goroutine sees first is decided by the
		// runtime - so only requests scheduled in earlier steps must show up on the network)
		if e.ev.Request != nil && e.step < t.termStep {
			for _, p := range e.ev.Request.Waiting {
				if !t.requested[p.Peer] {
					// consistency of the lookup's event stream with the simulator's log is not part of the property;
					// about one execution in several million shows a request event whose goroutine never reached the
					// network (not reproducible: the runtime's choice), so this is counted, not failed
					vmc.Count("request_event_without_network_request", 1)
				}
			}
		}
	}
	seen := map[peer.ID]bool{}
	for i, p := range out.peers {
		if p == w.Self {
			x.Failf("C01/self-returned", "result %v contains the local node", w.Names(out.peers))
			return false
		}
		if seen[p] {
			x.Failf("C01/duplicate", "result %v lists a peer twice", w.Names(out.peers))
			return false
		}
		seen[p] = true
		if i > 0 && !kadLess(out.peers[i-1], p, key) {
			x.Failf("C01/not-ascending", "result %v is not in strictly ascending distance", w.Names(out.peers))
			return false
		}
	}
	if len(out.peers) > k {
		x.Failf("C01/more-than-K", "result has %d peers, K=%d", len(out.peers), k)
		return false
	}
	var cand []peer.ID
	for p := range t.learned {
		if !t.failed[p] {
			cand = append(cand, p)
		}
	}
	cand = sim.SortByDistance(cand, key)
	if len(cand) > k {
		cand = cand[:k]
	}
	if fmt.Sprint(w.Names(out.peers)) != fmt.Sprint(w.Names(cand)) {
		var ln, fn []string
		for p := range t.learned {
			ln = append(ln, w.Name(p))
		}
		for p := range t.failed {
			fn = append(fn, w.Name(p))
		}
		sort.Strings(ln)
		sort.Strings(fn)
		x.Failf("C01/result", "result %v, expected the K=%d nearest of learned %v minus failed %v = %v (search phase ended at delivery %d)", w.Names(out.peers), k, ln, fn, w.Names(cand), t.termStep)
		return false
	}
	return true
}

// processedHeard is what the lookup must take from a delivered response: first 2K entries,
// without self and without peers the query filter rejects.
func processedHeard(w *sim.World, k int, resp *pb.Message) []peer.ID {
	var out []peer.ID
	for i, cp := range resp.GetCloserPeers() {
		if i >= 2*k {
			break
		}
		id := peer.ID(cp.GetId())
		if id == w.Self || id == w.Filtered {
			continue
		}
		out = append(out, id)
	}
	return out
}

var _ = context.Background

// ---- C10 part "lookup": over-long responses with and without the IP diversity filter ----------------

func c10LookupConfigs(tier string) []vmc.Cfg {
	var out []vmc.Cfg
	for _, div := range []bool{false, true} {
		for _, k := range []int{2, 3} {
			for _, beh := range []string{sim.BFlood, sim.BFloodFront, sim.BDup, sim.BAll} {
				for pos := 0; pos < 4; pos++ {
					as := []string{sim.BHonest, sim.BHonest, sim.BHonest, sim.BHonest}
					as[pos] = beh
					for _, sd := range [][]int{{0}, {3}, {0, 3}} {
						c := c01cfg{n: 4, k: k, a: 2, b: 1, behaviours: as, knowledge: "full", seeds: sd, keyCell: "000", diversity: div}
						out = append(out, vmc.Cfg{Name: fmt.Sprintf("lookup/diversity-%v/k%d/%s/seeds%v", div, k, strings.Join(as, ","), sd), Data: c})
						// the same over-long answers to the other request kinds that carry closer peers
						if (tier == "thorough" || (k == 2 && len(sd) == 2)) && beh != sim.BAll {
							for _, op := range []string{"findpeer", "providers", "value"} {
								c2 := c
								c2.op = op
								out = append(out, vmc.Cfg{Name: fmt.Sprintf("lookup-%s/diversity-%v/k%d/%s/seeds%v", op, div, k, strings.Join(as, ","), sd), Data: c2})
							}
						}
					}
				}
			}
		}
	}
	return out
}

func TestVMC_C10lookup(t *testing.T) {
	vmc.Main(t, vmc.Harness{ID: "C10", Configs: c10LookupConfigs, Run: c01Run, Bubble: true})
}
