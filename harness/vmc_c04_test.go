//go:build verif

package dht

import (
	"context"
	"errors"
	"fmt"
	"strings"
	"testing"
	"testing/synctest"
	"time"

	"github.com/libp2p/go-libp2p/core/routing"
	"github.com/multiformats/go-base32"

	"github.com/libp2p/go-libp2p-kad-dht/internal/vmc"
	"github.com/libp2p/go-libp2p-kad-dht/internal/vmc/jds"
	"github.com/libp2p/go-libp2p-kad-dht/internal/vmc/kid"
	"github.com/libp2p/go-libp2p-kad-dht/internal/vmc/sim"
)

// C04: SearchValue/GetValue only yield validator-approved, improving, best-known values.

type c04cfg struct {
	recs   []string // per responder: none, s1, s2, s3, bad, miskeyed, empty, nil, s3dup
	local  string   // none, s1, s3, expired-by-validator, corrupt
	quorum int
	a      int
	getter string // "search" or "get"
	instant bool  // responders answer the moment they are asked: several answers are processed in one step
}

var c04RecKinds = []string{"none", "s1", "s2", "s3", "bad", "miskeyed", "empty", "nil"}
var c04Locals = []string{"none", "s1", "s3", "validator-expired", "corrupt"}

func c04Configs(tier string) []vmc.Cfg {
	var out []vmc.Cfg
	n := 3
	total := 1
	for i := 0; i < n; i++ {
		total *= len(c04RecKinds)
	}
	alphas := []int{3}
	getters := []string{"search"}
	if tier == "thorough" {
		alphas = []int{3, 1, 2}
		getters = []string{"search", "get"}
	}
	for m := 0; m < total; m++ {
		recs := make([]string, n)
		mm := m
		for i := range recs {
			recs[i] = c04RecKinds[mm%len(c04RecKinds)]
			mm /= len(c04RecKinds)
		}
		for _, local := range c04Locals {
			for q := 0; q <= 3; q++ {
				for _, a := range alphas {
					for _, g := range getters {
						if tier != "thorough" && q == 3 && local != "none" {
							continue
						}
						c := c04cfg{recs: recs, local: local, quorum: q, a: a, getter: g}
						out = append(out, vmc.Cfg{Name: fmt.Sprintf("%s/a%d/q%d/local-%s/%s", g, a, q, local, strings.Join(recs, ",")), Data: c})
						if a == 3 && (local == "none" || local == "s1" || tier == "thorough") {
							ci := c
							ci.instant = true
							out = append(out, vmc.Cfg{Name: fmt.Sprintf("%s/a%d/q%d/local-%s/%s/instant", g, a, q, local, strings.Join(recs, ",")), Data: ci})
						}
					}
				}
			}
		}
	}
	return out
}

func TestVMC_C04(t *testing.T) {
	vmc.Main(t, vmc.Harness{ID: "C04", Configs: c04Configs, Run: c04Run, Bubble: true})
}

func valueDsKeyFor(key string) string {
	ns := strings.SplitN(key, "/", 3)[1]
	return "/" + ns + "/" + base32.RawStdEncoding.EncodeToString([]byte(key))
}

func c04Run(x *vmc.X, cfg vmc.Cfg) {
	c := cfg.Data.(c04cfg)
	cc := c01cfg{n: len(c.recs), k: 3, a: c.a, b: 3, knowledge: "full"}
	cc.behaviours = make([]string, cc.n)
	for i := range cc.behaviours {
		cc.behaviours[i] = sim.BHonest
	}
	w, ids := c01World(cc)
	key := kid.KeyWithPrefix("v", "000", 0)
	other := kid.KeyWithPrefix("v", "000", 1)
	supplied := map[string]int{} // responder name -> seq of the valid value it supplies (if any)
	for i, id := range ids {
		p := w.Peers[id]
		switch c.recs[i] {
		case "s1", "s2", "s3":
			seq := int(c.recs[i][1] - '0')
			p.Records[key] = sim.Val(seq, "from-"+p.Name)
			supplied[p.Name] = seq
		case "bad":
			p.Records[key] = sim.Val(9, "bad")
		case "miskeyed":
			p.Records[key] = sim.Val(8, "x")
			p.RecordKey[key] = other
		case "empty":
			p.Records[key] = []byte{}
		case "nil":
			p.Records[key] = nil
		}
	}
	store := jds.New()
	l, err := newLH(x, w, lhParams{k: 3, alpha: c.a, beta: 3, opts: []Option{Datastore(store)}})
	if err != nil {
		x.Failf("C04/setup", "%v", err)
		return
	}
	defer l.close()
	l.seed(ids)
	l.net.Instant = c.instant
	localSeq := -1
	switch c.local {
	case "s1", "s3":
		localSeq = int(c.local[1] - '0')
		if err := l.d.valueStore.Put(l.ctx, key, sim.MakeRecord(key, sim.Val(localSeq, "local"))); err != nil {
			x.Failf("C04/setup", "local put: %v", err)
			return
		}
	case "validator-expired":
		// stored while valid; by the time of the search the validator rejects it (max record age not reached)
		v := sim.Val(7, fmt.Sprintf("until=%d|local", time.Now().Add(time.Minute).UnixNano()))
		if err := l.d.valueStore.Put(l.ctx, key, sim.MakeRecord(key, v)); err != nil {
			x.Failf("C04/setup", "local put: %v", err)
			return
		}
		time.Sleep(2 * time.Minute)
	case "corrupt":
		store.SetRaw(valueDsKeyFor(key), []byte{0xff, 0x01, 0x02, 0x03})
	}

	ctx, cancel := context.WithCancel(l.ctx)
	defer cancel()
	var emitted [][]byte
	closed := false
	closeStep := -1
	var getVal []byte
	var getErr error
	done := make(chan struct{})
	if c.getter == "search" {
		ch, err := l.d.SearchValue(ctx, key, Quorum(c.quorum))
		if err != nil {
			x.Failf("C04/search-error", "%v", err)
			return
		}
		go func() {
			for v := range ch {
				emitted = append(emitted, v)
			}
			close(done)
		}()
	} else {
		go func() {
			getVal, getErr = l.d.GetValue(ctx, key, Quorum(c.quorum))
			close(done)
		}()
	}
	val := sim.Validator()
	nChecked := 0
	l.onStep = func() bool {
		for ; nChecked < len(emitted); nChecked++ {
			v := emitted[nChecked]
			if err := val.Validate(key, v); err != nil {
				x.Failf("C04/invalid-value-emitted", "SearchValue emitted %q which the validator rejects: %v", v, err)
				return false
			}
			if nChecked > 0 && sim.Seq(v) <= sim.Seq(emitted[nChecked-1]) {
				x.Failf("C04/not-improving", "SearchValue emitted %q after %q", v, emitted[nChecked-1])
				return false
			}
		}
		if !closed {
			select {
			case <-done:
				closed = true
				closeStep = l.step
			default:
			}
		}
		return true
	}
	l.stateKey = func() string {
		return fmt.Sprintf("%s|emitted:%q|closed:%v@%d", l.deliveredKey(), emitted, closed, closeStep)
	}
	if !l.runToCompletion("C04", func() bool { return closed && len(l.net.PendingEvents()) == 0 }, 100) {
		return
	}
	// best valid value supplied by local storage or by an answer delivered before the search ended
	best := -1
	if localSeq > best {
		best = localSeq
	}
	deliveries := 0
	for _, e := range l.net.Log {
		if e.What != "deliver" || e.Instant {
			continue
		}
		deliveries++
		if deliveries > closeStep {
			break
		}
		if e.Kind == "req" && e.Err == "" && e.Type.String() == "GET_VALUE" {
			if s, ok := supplied[w.Name(e.To)]; ok && s > best {
				best = s
			}
		}
	}
	var final []byte
	if c.getter == "search" {
		if len(emitted) > 0 {
			final = emitted[len(emitted)-1]
		}
	} else {
		final = getVal
		if getErr != nil && !errors.Is(getErr, routing.ErrNotFound) {
			x.Failf("C04/get-error", "GetValue: %v", getErr)
			return
		}
		if final != nil {
			if err := val.Validate(key, final); err != nil {
				x.Failf("C04/invalid-value-returned", "GetValue returned %q which the validator rejects", final)
				return
			}
		}
	}
	anyValid := localSeq >= 0
	for range supplied {
		anyValid = true
	}
	if final == nil {
		if best >= 0 {
			x.Failf("C04/valid-value-not-returned", "search ended (after delivery %d) without a value although a valid value with seq %d had been supplied", closeStep, best)
			return
		}
		if c.getter == "get" && !errors.Is(getErr, routing.ErrNotFound) {
			x.Failf("C04/not-found-expected", "no valid value was supplied but GetValue returned err=%v", getErr)
			return
		}
	} else {
		if !anyValid {
			x.Failf("C04/value-from-nowhere", "no valid value exists anywhere but %q was returned", final)
			return
		}
		if sim.Seq(final) < best {
			x.Failf("C04/not-the-best", "final value %q (seq %d) although a valid value with seq %d was supplied before the search ended (delivery %d)", final, sim.Seq(final), best, closeStep)
			return
		}
	}
	x.Obs("final=%q emitted=%d", final, len(emitted))
	x.Outcome("final=%d emitted=%d", sim.Seq(final), len(emitted))
	synctest.Wait()
}
