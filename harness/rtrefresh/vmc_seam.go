//go:build verif

package rtrefresh

// VmcSetKeyGen replaces the generator of refresh keys. The production generator draws from
// crypto/rand (go-libp2p-kbucket), a source of nondeterminism no harness can own; checks that
// run the refresh manager substitute a deterministic generator right after construction.
// This file exists only in the overlay used by /verif (never in the repository).
func (r *RtRefreshManager) VmcSetKeyGen(f func(cpl uint) (string, error)) { r.refreshKeyGenFnc = f }
