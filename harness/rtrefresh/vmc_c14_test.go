//go:build verif

package rtrefresh

import (
	"context"
	"fmt"
	"strings"
	"testing"
	"testing/synctest"
	"time"

	kb "github.com/libp2p/go-libp2p-kbucket"
	"github.com/libp2p/go-libp2p/core/peer"
	pstore "github.com/libp2p/go-libp2p/p2p/host/peerstore"

	"github.com/libp2p/go-libp2p-kad-dht/internal/vmc"
	"github.com/libp2p/go-libp2p-kad-dht/internal/vmc/kid"
	"github.com/libp2p/go-libp2p-kad-dht/internal/vmc/sim"
	"github.com/libp2p/go-libp2p-kad-dht/internal/vmc/vsync"
)

// C14 (refresh manager): Close in every interleaving with a running refresh (queries and pings
// are scheduling points that do not observe cancellation), with Refresh callers and with a
// second Close. Oracle: when Close returns nothing the manager started is still running; every
// Refresh caller gets an answer; nothing is left at the end.

type c14rcfg struct {
	auto     bool
	force    bool
	refreshN int // concurrent Refresh callers
	peers    int
}

func c14rConfigs(tier string) []vmc.Cfg {
	var out []vmc.Cfg
	for _, auto := range []bool{false, true} {
		for _, force := range []bool{false, true} {
			for _, n := range []int{0, 1, 2} {
				for _, peers := range []int{0, 2} {
					if tier != "thorough" && n == 2 && peers == 2 && auto {
						continue
					}
					out = append(out, vmc.Cfg{Name: fmt.Sprintf("rtrefresh/auto=%v/force=%v/callers=%d/peers=%d", auto, force, n, peers), Budget: 100, Data: c14rcfg{auto, force, n, peers}})
				}
			}
		}
	}
	return out
}

func TestVMC_C14rtrefresh(t *testing.T) {
	vmc.Main(t, vmc.Harness{ID: "C14", Configs: c14rConfigs, Run: c14rRun, Bubble: true, ShardSubtree: true})
}

func c14rLeaks() []string {
	var real []string
	for _, g := range vmc.LeakedGoroutines() {
		if strings.Contains(g, "pstoremem") || strings.Contains(g, "synctest.") {
			continue
		}
		real = append(real, g)
	}
	return real
}

func c14rRun(x *vmc.X, cfg vmc.Cfg) {
	c := cfg.Data.(c14rcfg)
	self := kid.Peer("0110", 0)
	h := sim.NewHost(self)
	defer h.Close()
	rt, err := kb.NewRoutingTable(2, kb.ConvertPeerID(self), time.Hour, pstore.NewMetrics(), 100*time.Hour, nil)
	if err != nil {
		x.Failf("C14/setup", "%v", err)
		return
	}
	for i := 0; i < c.peers; i++ {
		rt.TryAddPeer(kid.Peer([]string{"1", "00"}[i], 1), true, false)
	}
	s := vmc.NewSched(x)
	// the window between a WaitGroup waiter's wake-up and its return is a scheduling point (vsync contract check)
	vsync.Hook = func(addr any, op string) {
		if op == "wg-wake" {
			s.Point("wg-wake")
		}
	}
	defer func() { vsync.Hook = nil }()
	keygen := func(cpl uint) (string, error) { return fmt.Sprintf("key-%d", cpl), nil }
	query := func(ctx context.Context, key string) error { s.Point("query " + key); return nil }
	ping := func(ctx context.Context, p peer.ID) error { s.Point("ping"); return nil }
	done := make(chan struct{}, 64)
	r, err := NewRtRefreshManager(h, rt, c.auto, keygen, query, ping, 10*time.Second, time.Hour, time.Minute, done)
	if err != nil {
		x.Failf("C14/setup", "%v", err)
		return
	}
	r.Start()
	closeErr := make([]error, 2)
	var leftAtClose []string
	closed := false
	s.Go("closer", func() {
		closeErr[0] = r.Close()
		closed = true
	})
	type ans struct {
		got bool
		err error
	}
	answers := make([]ans, c.refreshN)
	lateErr := make([]error, c.refreshN)
	for i := 0; i < c.refreshN; i++ {
		i := i
		s.Go(fmt.Sprintf("caller%d", i), func() {
			wasClosed := closed
			e, ok := <-r.Refresh(c.force)
			answers[i] = ans{ok, e}
			if wasClosed {
				lateErr[i] = e
				if e == nil {
					lateErr[i] = fmt.Errorf("nil")
				}
			}
		})
	}
	seenClose := false
	for steps := 0; steps < 400; steps++ {
		synctest.Wait()
		if s.Done("closer") && !seenClose {
			seenClose = true
			leftAtClose = s.ParkedOthers()
			if len(leftAtClose) > 0 {
				x.Failf("C14/rtrefresh/close-returned-early", "Close returned while the manager is still inside %v", leftAtClose)
				s.Finish()
				return
			}
		}
		if len(s.Parked()) == 0 {
			break
		}
		s.Step(nil)
	}
	synctest.Wait()
	if !s.AllDone() {
		x.Failf("C14/rtrefresh/deadlock", "threads %v cannot finish (parked: %v); goroutines %v", s.Unfinished(), s.Parked(), c14rLeaks())
		s.Finish()
		return
	}
	s.Finish()
	if closeErr[0] != nil {
		x.Failf("C14/rtrefresh/close-error", "%v", closeErr[0])
	}
	for i, a := range answers {
		if !a.got {
			x.Failf("C14/rtrefresh/refresh-unanswered", "caller %d: the Refresh channel was closed without a value", i)
		}
	}
	// Close may be repeated; Refresh after Close is refused at once
	second := make(chan error, 1)
	go func() { second <- r.Close() }()
	synctest.Wait()
	select {
	case e := <-second:
		if e != nil {
			x.Failf("C14/rtrefresh/second-close-error", "%v", e)
		}
	default:
		x.Failf("C14/rtrefresh/second-close-hangs", "goroutines %v", c14rLeaks())
		return
	}
	late := r.Refresh(true)
	synctest.Wait()
	select {
	case e, ok := <-late:
		if !ok || e == nil {
			x.Failf("C14/rtrefresh/refresh-after-close", "Refresh after Close yielded (%v, %v), want an error", e, ok)
		}
	default:
		x.Failf("C14/rtrefresh/refresh-after-close-hangs", "Refresh after Close has no answer; goroutines %v", c14rLeaks())
		return
	}
	synctest.Wait()
	if left := c14rLeaks(); len(left) > 0 {
		x.Failf("C14/rtrefresh/leak", "after Close %d goroutine(s) remain: %v", len(left), left)
	}
	res := ""
	for _, a := range answers {
		res += fmt.Sprintf("%v ", a.err == nil)
	}
	x.Eval(true)
	x.Outcome("answers=%s", res)
}
