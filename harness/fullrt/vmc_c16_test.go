//go:build verif

package fullrt

import (
	"context"
	"fmt"
	"sort"
	"strings"
	gosync "sync"
	"testing"
	"testing/synctest"
	"time"

	"github.com/ipfs/go-cid"
	"github.com/libp2p/go-libp2p/core/host"
	"github.com/libp2p/go-libp2p/core/network"
	"github.com/libp2p/go-libp2p/core/peer"
	"github.com/libp2p/go-libp2p/core/peerstore"
	"github.com/libp2p/go-libp2p/core/protocol"
	"github.com/libp2p/go-libp2p/core/routing"
	ma "github.com/multiformats/go-multiaddr"
	"github.com/multiformats/go-multihash"

	kaddht "github.com/libp2p/go-libp2p-kad-dht"
	"github.com/libp2p/go-libp2p-kad-dht/crawler"
	"github.com/libp2p/go-libp2p-kad-dht/internal/vmc"
	"github.com/libp2p/go-libp2p-kad-dht/internal/vmc/kid"
	"github.com/libp2p/go-libp2p-kad-dht/internal/vmc/sim"
	"github.com/libp2p/go-libp2p-kad-dht/internal/vmc/vsync"
	pb "github.com/libp2p/go-libp2p-kad-dht/pb"
)

// stubCrawler reports a preset crawl.
type stubCrawler struct {
	mu    gosync.Mutex
	h     *sim.Host
	crawl []crawled
	runs  int
	// addrMode: "" one address per peer; "multi": three addresses on one IP (tcp, a second port, quic) - one IP group,
	// several addresses; "two-groups": a second address in the next IP group - the peer is a member of both
	addrMode string
}

type crawled struct {
	id    peer.ID
	group int
}

func groupAddr(g, i int) ma.Multiaddr {
	return ma.StringCast(fmt.Sprintf("/ip4/%d.1.%d.%d/tcp/4001", 20+g, i/250, 1+i%250))
}

func (s *stubCrawler) Run(ctx context.Context, _ []*peer.AddrInfo, ok crawler.HandleQueryResult, _ crawler.HandleQueryFail) {
	s.mu.Lock()
	c := append([]crawled(nil), s.crawl...)
	s.runs++
	s.mu.Unlock()
	for i, p := range c {
		a := groupAddr(p.group, i)
		s.h.Peerstore().ClearAddrs(p.id)
		s.h.Peerstore().AddAddr(p.id, a, peerstore.PermanentAddrTTL)
		switch s.addrMode {
		case "multi":
			ip := fmt.Sprintf("/ip4/%d.1.%d.%d", 20+p.group, i/250, 1+i%250)
			s.h.Peerstore().AddAddr(p.id, ma.StringCast(ip+"/tcp/4002"), peerstore.PermanentAddrTTL)
			s.h.Peerstore().AddAddr(p.id, ma.StringCast(ip+"/udp/4001/quic-v1"), peerstore.PermanentAddrTTL)
		case "two-groups":
			s.h.Peerstore().AddAddr(p.id, groupAddr((p.group+1)%3, 100+i), peerstore.PermanentAddrTTL)
		}
		if len(s.h.Network().ConnsToPeer(p.id)) == 0 {
			s.h.AddConn(p.id, network.DirOutbound, a)
		}
		ok(p.id, nil)
	}
}

type frtEnv struct {
	h    *sim.Host
	net  *sim.Net
	w    *sim.World
	frt  *FullRT
	stub *stubCrawler
}

func newFRT(k, limit int, extra ...Option) (*frtEnv, error) {
	self := kid.Peer("0110", 6)
	e := &frtEnv{w: sim.NewWorld(self, k)}
	e.net = sim.NewNet(e.w)
	e.h = sim.NewHost(self, ma.StringCast("/ip4/8.8.4.4/tcp/4001"))
	e.h.DialFn = e.net.Dial
	e.stub = &stubCrawler{h: e.h}
	opts := []Option{
		DHTOption(kaddht.BucketSize(k), kaddht.Validator(sim.Validator()), kaddht.BootstrapPeers(),
			kaddht.WithCustomMessageSender(func(_ host.Host, protos []protocol.ID) pb.MessageSenderWithDisconnect { return e.net.Sender("fullrt") })),
		WithCrawler(e.stub), WithIPDiversityFilterLimit(limit), WithSuccessWaitFraction(1), WithCrawlInterval(24 * time.Hour),
	}
	opts = append(opts, extra...)
	frt, err := NewFullRT(e.h, "/sim", opts...)
	if err != nil {
		e.h.Close()
		return nil, err
	}
	e.frt = frt
	frt.shuffle = func(int, func(int, int)) {}
	synctest.Wait()
	return e, nil
}

func (e *frtEnv) close() {
	e.frt.Close()
	e.h.Close()
	synctest.Wait()
}

func (e *frtEnv) recrawl(c []crawled) {
	e.stub.mu.Lock()
	e.stub.crawl = c
	e.stub.mu.Unlock()
	_ = e.frt.TriggerRefresh(context.Background())
	synctest.Wait()
}

// refClosest: greedy nearest-first selection with at most limit peers per IP group.
func refClosest(c []crawled, key string, k, limit int) []peer.ID {
	ids := make([]peer.ID, len(c))
	group := map[peer.ID]int{}
	for i, p := range c {
		ids[i] = p.id
		group[p.id] = p.group
	}
	ids = sim.SortByDistance(ids, key)
	cnt := map[int]int{}
	var out []peer.ID
	for _, p := range ids {
		if limit > 0 && cnt[group[p]] >= limit {
			continue
		}
		cnt[group[p]]++
		out = append(out, p)
		if len(out) == k {
			break
		}
	}
	return out
}

// ---- part "closest": exhaustive small-scope enumeration ----------------------------------------------

type c16cfg struct {
	k, limit  int
	chunk, of int
	addrMode  string
}

func c16Configs(tier string) []vmc.Cfg {
	var out []vmc.Cfg
	for k := 1; k <= 3; k++ {
		for limit := 0; limit <= 2; limit++ {
			for i := 0; i < 4; i++ {
				out = append(out, vmc.Cfg{Name: fmt.Sprintf("closest/k%d/limit%d/%d-of-4", k, limit, i), Data: c16cfg{k, limit, i, 4, ""}})
			}
		}
	}
	// address assignments with several addresses per peer (only meaningful with a limit)
	for _, mode := range []string{"multi", "two-groups"} {
		for k := 1; k <= 3; k++ {
			for limit := 1; limit <= 2; limit++ {
				for i := 0; i < 4; i++ {
					out = append(out, vmc.Cfg{Name: fmt.Sprintf("closest-%s/k%d/limit%d/%d-of-4", mode, k, limit, i), Data: c16cfg{k, limit, i, 4, mode}})
				}
			}
		}
	}
	return out
}

func TestVMC_C16closest(t *testing.T) {
	vmc.Main(t, vmc.Harness{ID: "C16", Configs: c16Configs, Run: c16Run, Bubble: true})
}

func c16Run(x *vmc.X, cfg vmc.Cfg) {
	c := cfg.Data.(c16cfg)
	e, err := newFRT(c.k, c.limit)
	if err != nil {
		x.Failf("C16/setup", "%v", err)
		return
	}
	defer e.close()
	e.stub.addrMode = c.addrMode
	// the IP groups a peer is a member of
	memberOf := func(g int) []int {
		if c.addrMode == "two-groups" {
			return []int{g, (g + 1) % 3}
		}
		return []int{g}
	}
	cells := []string{"000", "001", "010", "011", "100", "101", "110", "111"}
	keys := make([]string, 8)
	for i, cell := range cells {
		keys[i] = kid.KeyWithPrefix("v", cell, 0)
	}
	idx := 0
	for mask := 0; mask < 256; mask++ {
		var members []int
		for i := 0; i < 8; i++ {
			if mask&(1<<i) != 0 {
				members = append(members, i)
			}
		}
		n := len(members)
		// group assignments: all 3^n for n<=5, a fixed family of patterns above
		var assigns [][]int
		if n <= 5 {
			total := 1
			for i := 0; i < n; i++ {
				total *= 3
			}
			for a := 0; a < total; a++ {
				g := make([]int, n)
				aa := a
				for i := range g {
					g[i] = aa % 3
					aa /= 3
				}
				assigns = append(assigns, g)
			}
		} else {
			for _, pat := range []func(i int) int{
				func(i int) int { return 0 }, func(i int) int { return i % 2 }, func(i int) int { return i % 3 },
				func(i int) int { return i / 3 }, func(i int) int { return i / 4 }, func(i int) int {
					if i < n-1 {
						return 0
					}
					return 1
				},
				func(i int) int {
					if i%4 == 0 {
						return 1
					}
					return 0
				},
			} {
				g := make([]int, n)
				for i := range g {
					g[i] = pat(i)
				}
				assigns = append(assigns, g)
			}
		}
		for _, g := range assigns {
			idx++
			if idx%c.of != c.chunk {
				continue
			}
			var crawl []crawled
			perGroup := map[int]int{}
			for i, m := range members {
				crawl = append(crawl, crawled{kid.Peer(cells[m], 6), g[i]})
				for _, mg := range memberOf(g[i]) {
					perGroup[mg]++
				}
			}
			e.recrawl(crawl)
			if len(e.frt.Stat()) != n {
				x.Failf("C16/crawl-not-installed", "Stat() has %d peers after a crawl of %d", len(e.frt.Stat()), n)
				return
			}
			overfull := false
			for _, cnt := range perGroup {
				if c.limit > 0 && cnt > c.limit {
					overfull = true
				}
			}
			for _, key := range keys {
				got, err := e.frt.GetClosestPeers(context.Background(), key)
				if err != nil {
					x.Failf("C16/closest-error", "%v", err)
					return
				}
				shape := fmt.Sprintf("crawl cells %v groups %v addresses %q K=%d limit=%d key %s", members, g, c.addrMode, c.k, c.limit, kid.BitsOf([]byte(key), 3))
				grp := map[peer.ID]int{}
				for _, p := range crawl {
					grp[p.id] = p.group
				}
				cnt := map[int]int{}
				for i, p := range got {
					if _, ok := grp[p]; !ok {
						x.Failf("C16/closest-foreign-peer", "%s: result contains a peer that was not crawled", shape)
						return
					}
					for _, mg := range memberOf(grp[p]) {
						cnt[mg]++
						if c.limit > 0 && cnt[mg] > c.limit {
							x.Failf("C16/closest-group-limit", "%s: %d returned peers share IP group %d (limit %d): %v; addresses the client holds: %v", shape, cnt[mg], mg, c.limit, e.names(got, crawl), e.frt.peerAddrs)
							return
						}
					}
					if i > 0 && kid.Xor([]byte(got[i-1]), []byte(p), []byte(key)) >= 0 {
						x.Failf("C16/closest-not-ascending", "%s: result %v is not in ascending distance", shape, e.names(got, crawl))
						return
					}
				}
				want := refClosest(crawl, key, c.k, c.limit)
				if c.addrMode == "two-groups" {
					// which peers a greedy selection keeps when a peer is a member of two groups is not specified:
					// only "exactly the K nearest when no group is overfull" is compared
					want = refClosest(crawl, key, c.k, 0)
				}
				if c.addrMode != "two-groups" || !overfull {
					if fmt.Sprint(got) != fmt.Sprint(want) {
						sig := "C16/closest-not-the-nearest"
						if overfull {
							sig = "C16/closest-not-greedy-under-limit"
						}
						x.Failf(sig, "%s: got %v, expected %v", shape, e.names(got, crawl), e.names(want, crawl))
						return
					}
				}
				x.Eval(n > c.k)
			}
		}
	}
}

func (e *frtEnv) names(ids []peer.ID, c []crawled) []string {
	var out []string
	for _, p := range ids {
		out = append(out, kid.BitsOf([]byte(p), 3))
	}
	return out
}

// ---- part "swap": a crawl swap racing readers, lock-level scheduling points (E2) ---------------------

func c16SwapConfigs(tier string) []vmc.Cfg {
	return []vmc.Cfg{
		{Name: "swap/one-reader", Budget: 100, Data: [2]int{1, 0}},
		{Name: "swap/two-readers", Budget: 4, Data: [2]int{2, 0}},
		// with a diversity limit the answer also depends on the address map of the crawl
		{Name: "swap/one-reader/limit1", Budget: 100, Data: [2]int{1, 1}},
		{Name: "swap/two-readers/limit1", Budget: 4, Data: [2]int{2, 1}},
	}
}

func TestVMC_C16swap(t *testing.T) {
	vmc.Main(t, vmc.Harness{ID: "C16", Configs: c16SwapConfigs, Run: c16SwapRun, Bubble: true, ShardSubtree: true})
}

func c16SwapRun(x *vmc.X, cfg vmc.Cfg) {
	readers, limit := cfg.Data.([2]int)[0], cfg.Data.([2]int)[1]
	const K = 2
	e, err := newFRT(K, limit)
	if err != nil {
		x.Failf("C16/setup", "%v", err)
		return
	}
	defer e.close()
	cells := []string{"000", "001", "010", "011", "100", "101", "110", "111"}
	mk := func(idx ...int) []crawled {
		var c []crawled
		for _, i := range idx {
			g := i % 3
			if limit > 0 {
				// the two peers nearest to the key share an IP group, so the limit changes the answer
				g = map[int]int{0: 0, 1: 0, 2: 0, 3: 0, 4: 1, 5: 1, 6: 2, 7: 2}[i]
			}
			c = append(c, crawled{kid.Peer(cells[i], 6), g})
		}
		return c
	}
	crawlA := mk(0, 1, 4, 6)
	crawlB := mk(2, 3, 5, 7) // disjoint from A: a mixture of the two loses peers
	e.recrawl(crawlA)
	key := kid.KeyWithPrefix("v", "000", 0)
	wantA := fmt.Sprint(refClosest(crawlA, key, K, limit))
	wantB := fmt.Sprint(refClosest(crawlB, key, K, limit))
	sched := vmc.NewSched(x)
	vsync.Hook = func(addr any, op string) {
		if op == "lock" || op == "rlock" {
			sched.Point(op)
		}
	}
	defer func() { vsync.Hook = nil }()
	e.stub.mu.Lock()
	e.stub.crawl = crawlB
	e.stub.mu.Unlock()
	sched.Go("swap", func() { _ = e.frt.TriggerRefresh(context.Background()) })
	results := make([]string, readers)
	for r := 0; r < readers; r++ {
		r := r
		sched.Go(fmt.Sprintf("reader%d", r), func() {
			got, _ := e.frt.GetClosestPeers(context.Background(), key)
			results[r] = fmt.Sprint(got)
		})
	}
	for steps := 0; steps < 300; steps++ {
		synctest.Wait()
		if len(sched.Parked()) == 0 {
			break
		}
		if !sched.Step(nil) {
			break
		}
	}
	synctest.Wait()
	if !sched.AllDone() {
		x.Failf("C16/swap-deadlock", "threads %v cannot finish; parked %v", sched.Unfinished(), sched.Parked())
		sched.Finish()
		return
	}
	sched.Finish()
	vsync.Hook = nil
	synctest.Wait()
	for r, got := range results {
		if got != wantA && got != wantB {
			x.Failf("C16/swap-mixture", "reader %d got %s during a crawl swap: neither the previous crawl's answer %s nor the new crawl's %s", r, got, wantA, wantB)
			return
		}
	}
	after, _ := e.frt.GetClosestPeers(context.Background(), key)
	if fmt.Sprint(after) != wantB {
		x.Failf("C16/swap-lost", "after the swap the result is %v, expected the new crawl's %s", after, wantB)
		return
	}
	x.Obs("%v", results)
	x.Outcome("%v", results)
}

// ---- part "degenerate": empty table / missing options --------------------------------------------------

func c16DegConfigs(tier string) []vmc.Cfg {
	var out []vmc.Cfg
	for _, op := range []string{"ProvideMany", "PutMany", "Provide", "PutValue", "FindProviders", "FindProvidersAsync", "GetValue", "SearchValue", "GetClosestPeers", "FindPeer", "no-bootstrap-option", "ProvideMany-1peer", "PutMany-1peer"} {
		out = append(out, vmc.Cfg{Name: "degenerate/" + op, Data: op})
	}
	return out
}

func TestVMC_C16degenerate(t *testing.T) {
	vmc.Main(t, vmc.Harness{ID: "C16", Configs: c16DegConfigs, Run: c16DegRun, Bubble: true})
}

func c16DegRun(x *vmc.X, cfg vmc.Cfg) {
	op := cfg.Data.(string)
	if op == "no-bootstrap-option" {
		self := kid.Peer("0110", 6)
		h := sim.NewHost(self, ma.StringCast("/ip4/8.8.4.4/tcp/4001"))
		defer h.Close()
		func() {
			defer func() {
				if r := recover(); r != nil {
					x.Failf("C16/constructor-panic", "NewFullRT without a bootstrap-peers option panicked: %v", r)
				}
			}()
			frt, err := NewFullRT(h, "/sim", DHTOption(kaddht.BucketSize(2), kaddht.Validator(sim.Validator())), WithCrawler(&stubCrawler{h: h}))
			if err == nil {
				frt.Close()
			}
			x.Obs("constructed=%v", err == nil)
		}()
		synctest.Wait()
		if left := vmc.LeakedGoroutines(); len(left) > 0 {
			var real []string
			for _, g := range left {
				if !strings.Contains(g, "pstoremem") && !strings.Contains(g, "synctest.") {
					real = append(real, g)
				}
			}
			if len(real) > 0 && !x.Failed() {
				x.Failf("C16/constructor-leak", "goroutines left behind: %v", real)
			}
		}
		return
	}
	e, err := newFRT(2, 0)
	if err != nil {
		x.Failf("C16/setup", "%v", err)
		return
	}
	defer e.close()
	if strings.HasSuffix(op, "-1peer") {
		p := kid.Peer("000", 6)
		e.w.Add("p", p, sim.BAll)
		e.net.Instant = true
		e.recrawl([]crawled{{p, 0}})
		op = strings.TrimSuffix(op, "-1peer")
	}
	ctx, cancel := context.WithTimeout(context.Background(), time.Minute)
	defer cancel()
	mh := kid.Mh("000", 0)
	vkey := kid.KeyWithPrefix("v", "000", 0)
	done := make(chan string, 1)
	go func() {
		defer func() {
			if r := recover(); r != nil {
				done <- fmt.Sprintf("PANIC: %v", r)
			}
		}()
		var err error
		switch op {
		case "ProvideMany":
			err = e.frt.ProvideMany(ctx, []multihash.Multihash{mh})
		case "PutMany":
			err = e.frt.PutMany(ctx, []string{vkey}, [][]byte{sim.Val(1, "x")})
		case "Provide":
			err = e.frt.Provide(ctx, cid.NewCidV1(cid.Raw, mh), true)
		case "PutValue":
			err = e.frt.PutValue(ctx, vkey, sim.Val(1, "x"))
		case "FindProviders":
			_, err = e.frt.FindProviders(ctx, cid.NewCidV1(cid.Raw, mh))
		case "FindProvidersAsync":
			for range e.frt.FindProvidersAsync(ctx, cid.NewCidV1(cid.Raw, mh), 1) {
			}
		case "GetValue":
			_, err = e.frt.GetValue(ctx, vkey)
		case "SearchValue":
			var ch <-chan []byte
			ch, err = e.frt.SearchValue(ctx, vkey)
			if err == nil {
				for range ch {
				}
			}
		case "GetClosestPeers":
			_, err = e.frt.GetClosestPeers(ctx, vkey)
		case "FindPeer":
			_, err = e.frt.FindPeer(ctx, kid.Peer("111", 6))
		}
		done <- fmt.Sprintf("err=%v", err != nil)
	}()
	synctest.Wait()
	var res string
	select {
	case res = <-done:
	default:
		time.Sleep(10 * time.Second)
		synctest.Wait()
		select {
		case res = <-done:
		default:
			x.Failf("C16/degenerate-hang/"+op, "%s on an empty table has not returned after 10 virtual seconds", op)
			cancel()
			synctest.Wait()
			return
		}
	}
	if strings.HasPrefix(res, "PANIC") {
		x.Failf("C16/degenerate-panic/"+op, "%s on an empty table: %s", op, res)
		return
	}
	x.Obs("%s %s", op, res)
	x.Outcome("%s %s", op, res)
	_ = sort.Strings
}

// ---- C04 part "fullrt": the accelerated client's value search obeys the validator too -------------------

func c04FullrtConfigs(tier string) []vmc.Cfg {
	var out []vmc.Cfg
	for _, local := range []string{"none", "s1", "s3", "validator-expired"} {
		for _, remote := range []string{"none", "s2", "bad", "miskeyed"} {
			for _, g := range []string{"search", "get"} {
				out = append(out, vmc.Cfg{Name: fmt.Sprintf("fullrt-values/%s/local-%s/remote-%s", g, local, remote), Data: [3]string{local, remote, g}})
			}
		}
	}
	// quorum family: three responders, every assignment of {none, seq 1, seq 2, seq 3, invalid, mis-keyed} to them, local
	// {none, seq 1, seq 3}, quorum 0 (default) / 1 / 2, every arrival order
	recs := []string{"none", "s1", "s2", "s3", "bad", "miskeyed"}
	for _, local := range []string{"none", "s1", "s3"} {
		for q := 0; q <= 2; q++ {
			for m := 0; m < 216; m++ {
				as := [3]string{recs[m%6], recs[(m/6)%6], recs[m/36]}
				if tier != "thorough" {
					// quick: at most one of the answers is not a plain valid record, and the assignment is not constant
					odd := 0
					for _, a := range as {
						if a == "bad" || a == "miskeyed" || a == "none" {
							odd++
						}
					}
					if odd > 1 || (as[0] == as[1] && as[1] == as[2]) {
						continue
					}
				}
				for _, g := range []string{"search", "get"} {
					out = append(out, vmc.Cfg{Name: fmt.Sprintf("fullrt-quorum/%s/q%d/local-%s/%s,%s,%s", g, q, local, as[0], as[1], as[2]), Data: c04fq{getter: g, q: q, local: local, remote: as}})
				}
			}
		}
	}
	return out
}

type c04fq struct {
	getter string
	q      int
	local  string
	remote [3]string
}

func TestVMC_C04fullrt(t *testing.T) {
	vmc.Main(t, vmc.Harness{ID: "C04", Configs: c04FullrtConfigs, Run: c04FullrtRun, Bubble: true})
}

// c04FullrtQRun: value search of the accelerated client with a quorum, answers delivered one at a time in every order.
// An answer delivered while the result channel is still open has been processed by the search, so its value counts
// for "the final value is at least as good as every valid value supplied by a processed answer".
func c04FullrtQRun(x *vmc.X, c c04fq) {
	e, err := newFRT(3, 0, WithSuccessWaitFraction(1))
	if err != nil {
		x.Failf("C04/setup", "%v", err)
		return
	}
	defer e.close()
	key := kid.KeyWithPrefix("v", "000", 0)
	var crawl []crawled
	ids := map[peer.ID]int{}
	for i, cell := range []string{"000", "001", "100"} {
		id := kid.Peer(cell, 6)
		ids[id] = i
		pe := e.w.Add(fmt.Sprintf("p%d", i), id, sim.BAll)
		switch c.remote[i] {
		case "s1", "s2", "s3":
			pe.Records[key] = sim.Val(int(c.remote[i][1]-'0'), "remote")
		case "bad":
			pe.Records[key] = sim.Val(9, "bad")
		case "miskeyed":
			pe.Records[key] = sim.Val(8, "x")
			pe.RecordKey[key] = key + "x"
		}
		crawl = append(crawl, crawled{id, i})
	}
	e.net.Instant = true
	e.recrawl(crawl)
	e.net.Instant = false
	ctx, cancel := context.WithCancel(context.Background())
	defer cancel()
	best := -1
	if c.local != "none" {
		best = int(c.local[1] - '0')
		if err := e.frt.valueStore.Put(ctx, key, sim.MakeRecord(key, sim.Val(best, "local"))); err != nil {
			x.Failf("C04/setup", "%v", err)
			return
		}
	}
	var opts []routing.Option
	if c.q > 0 {
		opts = append(opts, kaddht.Quorum(c.q))
	}
	var mu gosync.Mutex
	var emitted [][]byte
	ended := false
	go func() {
		if c.getter == "search" {
			ch, err := e.frt.SearchValue(ctx, key, opts...)
			if err == nil {
				for v := range ch {
					mu.Lock()
					emitted = append(emitted, v)
					mu.Unlock()
				}
			}
		} else {
			v, err := e.frt.GetValue(ctx, key, opts...)
			if err == nil {
				mu.Lock()
				emitted = append(emitted, v)
				mu.Unlock()
			}
		}
		mu.Lock()
		ended = true
		mu.Unlock()
	}()
	var order []string
	for steps := 0; steps < 40; steps++ {
		synctest.Wait()
		mu.Lock()
		over := ended
		mu.Unlock()
		pend := e.net.PendingEvents()
		if over || len(pend) == 0 {
			if !over {
				time.Sleep(31 * time.Second)
				synctest.Wait()
				if len(e.net.PendingEvents()) == 0 {
					mu.Lock()
					over = ended
					mu.Unlock()
					if !over {
						x.Failf("C04/fullrt-hang", "the value search has not returned although nothing is pending (%+v)", c)
						return
					}
				} else {
					continue
				}
			}
			break
		}
		labels := make([]string, len(pend))
		for i, p := range pend {
			labels[i] = e.net.Label(p)
		}
		i := 0
		if len(pend) > 1 {
			i = x.Choose(len(pend), vmc.Order, "deliver "+fmt.Sprint(labels))
		}
		// the search is still running: this answer is processed
		if pend[i].Kind == "req" && pend[i].Msg.GetType() == pb.Message_GET_VALUE {
			if pi, ok := ids[pend[i].To]; ok {
				order = append(order, c.remote[pi])
				switch c.remote[pi] {
				case "s1", "s2", "s3":
					if s := int(c.remote[pi][1] - '0'); s > best {
						best = s
					}
				}
			}
		}
		time.Sleep(7 * time.Millisecond)
		e.net.Deliver(pend[i])
	}
	synctest.Wait()
	mu.Lock()
	defer mu.Unlock()
	if !ended {
		x.Failf("C04/fullrt-hang", "the value search has not returned after 40 deliveries (%+v)", c)
		return
	}
	val := sim.Validator()
	shape := fmt.Sprintf("%s quorum=%d local=%s answers processed in order %v", c.getter, c.q, c.local, order)
	for i, v := range emitted {
		if err := val.Validate(key, v); err != nil {
			x.Failf("C04/fullrt-invalid-value", "%s: the accelerated client yielded %q which the validator rejects: %v", shape, v, err)
			return
		}
		if i > 0 && sim.Seq(v) <= sim.Seq(emitted[i-1]) {
			x.Failf("C04/fullrt-not-improving", "%s: %q streamed after %q", shape, v, emitted[i-1])
			return
		}
	}
	if best >= 0 && (len(emitted) == 0 || sim.Seq(emitted[len(emitted)-1]) < best) {
		x.Failf("C04/fullrt-not-the-best", "%s: final %q, but a valid value with seq %d was supplied by local storage or an answer processed before the search ended", shape, emitted, best)
		return
	}
	if best < 0 && len(emitted) > 0 {
		x.Failf("C04/fullrt-value-from-nowhere", "%s: no valid value was supplied but %q was returned", shape, emitted)
		return
	}
	x.Eval(len(order) > 1)
	x.Obs("%s -> %q", shape, emitted)
	x.Outcome("%d values, %d answers processed", len(emitted), len(order))
}

func c04FullrtRun(x *vmc.X, cfg vmc.Cfg) {
	if q, ok := cfg.Data.(c04fq); ok {
		c04FullrtQRun(x, q)
		return
	}
	d := cfg.Data.([3]string)
	local, remote, getter := d[0], d[1], d[2]
	e, err := newFRT(2, 0)
	if err != nil {
		x.Failf("C04/setup", "%v", err)
		return
	}
	defer e.close()
	key := kid.KeyWithPrefix("v", "000", 0)
	p := kid.Peer("000", 6)
	pe := e.w.Add("p", p, sim.BAll)
	switch remote {
	case "s2":
		pe.Records[key] = sim.Val(2, "remote")
	case "bad":
		pe.Records[key] = sim.Val(9, "bad")
	case "miskeyed":
		pe.Records[key] = sim.Val(8, "x")
		pe.RecordKey[key] = key + "x"
	}
	e.net.Instant = true
	e.recrawl([]crawled{{p, 0}})
	ctx := context.Background()
	best := -1
	switch local {
	case "s1", "s3":
		best = int(local[1] - '0')
		if err := e.frt.valueStore.Put(ctx, key, sim.MakeRecord(key, sim.Val(best, "local"))); err != nil {
			x.Failf("C04/setup", "%v", err)
			return
		}
	case "validator-expired":
		v := sim.Val(7, fmt.Sprintf("until=%d|local", time.Now().Add(time.Minute).UnixNano()))
		if err := e.frt.valueStore.Put(ctx, key, sim.MakeRecord(key, v)); err != nil {
			x.Failf("C04/setup", "%v", err)
			return
		}
		time.Sleep(2 * time.Minute)
	}
	if remote == "s2" && best < 2 {
		best = 2
	}
	val := sim.Validator()
	var emitted [][]byte
	if getter == "search" {
		ch, err := e.frt.SearchValue(ctx, key)
		if err != nil {
			x.Failf("C04/search-error", "%v", err)
			return
		}
		for v := range ch {
			emitted = append(emitted, v)
		}
	} else {
		v, err := e.frt.GetValue(ctx, key)
		if err == nil {
			emitted = append(emitted, v)
		}
	}
	for i, v := range emitted {
		if err := val.Validate(key, v); err != nil {
			x.Failf("C04/fullrt-invalid-value", "the accelerated client yielded %q which the validator rejects: %v (local=%s remote=%s)", v, err, local, remote)
			return
		}
		if i > 0 && sim.Seq(v) <= sim.Seq(emitted[i-1]) {
			x.Failf("C04/fullrt-not-improving", "%q after %q", v, emitted[i-1])
			return
		}
	}
	if best >= 0 && (len(emitted) == 0 || sim.Seq(emitted[len(emitted)-1]) < best) {
		x.Failf("C04/fullrt-not-the-best", "final %q, a valid value with seq %d was supplied (local=%s remote=%s)", emitted, best, local, remote)
		return
	}
	if best < 0 && len(emitted) > 0 {
		x.Failf("C04/fullrt-value-from-nowhere", "no valid value exists but %q was returned", emitted)
		return
	}
	x.Obs("emitted %q", emitted)
	x.Outcome("%d", len(emitted))
}
