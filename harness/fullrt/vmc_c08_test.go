//go:build verif

package fullrt

import (
	"context"
	"fmt"
	"sort"
	"strings"
	"testing"
	"testing/synctest"
	"time"

	"github.com/ipfs/go-cid"
	"github.com/libp2p/go-libp2p/core/peer"
	ma "github.com/multiformats/go-multiaddr"

	"github.com/libp2p/go-libp2p-kad-dht/internal/vmc"
	"github.com/libp2p/go-libp2p-kad-dht/internal/vmc/kid"
	"github.com/libp2p/go-libp2p-kad-dht/internal/vmc/sim"
	pb "github.com/libp2p/go-libp2p-kad-dht/pb"
)

// C08 (accelerated client): FindProvidersAsync yields only providers that are stored locally or
// were named in an answer delivered so far, at most count distinct ones, repeats a peer only to
// add addresses it first lacked, and always closes its channel: every assignment of 6 provider
// list shapes to 3 crawled responders x 3 local-store contents x count 0-3 x every arrival order.
// (Which answers count as "processed" when the fan-out exits early is not specified for this
// client, so completeness for count 0 is only required when every answer arrived before the close.)

type c08fcfg struct {
	lists [3]int
	local int
	count int
}

var c08fLists = [][]string{{}, {"X+a"}, {"X"}, {"X+a", "Y"}, {"Y", "Z+a"}, {"X", "Y+a", "Z"}}
var c08fLocals = [][]string{{}, {"X+a"}, {"Y"}}

func c08fConfigs(tier string) []vmc.Cfg {
	var out []vmc.Cfg
	for m := 0; m < 216; m++ {
		lists := [3]int{m % 6, (m / 6) % 6, (m / 36) % 6}
		for local := range c08fLocals {
			for count := 0; count <= 3; count++ {
				if tier != "thorough" && local != 0 && count == 3 {
					continue
				}
				out = append(out, vmc.Cfg{Name: fmt.Sprintf("fullrt/providers/%v/local%d/count%d", lists, local, count), Data: c08fcfg{lists, local, count}})
			}
		}
	}
	return out
}

func TestVMC_C08fullrt(t *testing.T) {
	vmc.Main(t, vmc.Harness{ID: "C08", Configs: c08fConfigs, Run: c08fRun, Bubble: true})
}

func c08fRun(x *vmc.X, cfg vmc.Cfg) {
	c := cfg.Data.(c08fcfg)
	e, err := newFRT(3, 0)
	if err != nil {
		x.Failf("C08/setup", "%v", err)
		return
	}
	defer e.close()
	mhk := kid.Mh("000", 0)
	pcid := cid.NewCidV1(cid.Raw, mhk)
	prov := map[string]peer.ID{"X": kid.Peer("101", 5), "Y": kid.Peer("110", 5), "Z": kid.Peer("111", 5)}
	pname := func(id peer.ID) string {
		for n, p := range prov {
			if p == id {
				return n
			}
		}
		return "?" + e.w.Name(id)
	}
	addr := ma.StringCast("/ip4/9.9.9.9/tcp/4001")
	mk := func(l []string) []peer.AddrInfo {
		var out []peer.AddrInfo
		for _, s := range l {
			ai := peer.AddrInfo{ID: prov[s[:1]]}
			if strings.HasSuffix(s, "+a") {
				ai.Addrs = []ma.Multiaddr{addr}
			}
			out = append(out, ai)
		}
		return out
	}
	var crawl []crawled
	for i, cell := range []string{"000", "001", "100"} {
		id := kid.Peer(cell, 6)
		e.w.Add(fmt.Sprintf("p%d", i), id, sim.BHonest)
		if l := c08fLists[c.lists[i]]; len(l) > 0 {
			e.w.Peers[id].Providers[string(mhk)] = mk(l)
		}
		crawl = append(crawl, crawled{id, i})
	}
	e.net.Instant = true
	e.recrawl(crawl)
	e.net.Instant = false
	local := map[peer.ID]bool{}
	for _, ai := range mk(c08fLocals[c.local]) {
		if err := e.frt.ProviderManager.AddProvider(context.Background(), mhk, ai); err != nil {
			x.Failf("C08/setup", "%v", err)
			return
		}
		local[ai.ID] = true
	}
	ctx, cancel := context.WithCancel(context.Background())
	defer cancel()
	type yielded struct {
		id    peer.ID
		addrs int
	}
	var got []yielded
	done := make(chan struct{})
	ch := e.frt.FindProvidersAsync(ctx, pcid, c.count)
	go func() {
		for ai := range ch {
			got = append(got, yielded{ai.ID, len(ai.Addrs)})
		}
		close(done)
	}()
	named := func() map[peer.ID]bool {
		m := map[peer.ID]bool{}
		for _, le := range e.net.Log {
			if le.What == "deliver" && le.Kind == "req" && le.Err == "" && le.Resp != nil && le.Type == pb.Message_GET_PROVIDERS {
				for _, pp := range le.Resp.GetProviderPeers() {
					m[peer.ID(pp.GetId())] = true
				}
			}
		}
		return m
	}
	nChecked, steps, idle := 0, 0, 0
	closed := false
	answersBeforeClose := 0
	var delivered []string
	for {
		synctest.Wait()
		nm := named()
		for ; nChecked < len(got); nChecked++ {
			y := got[nChecked]
			if !local[y.id] && !nm[y.id] {
				x.Failf("C08/fullrt/unreported-provider", "%s was yielded but is neither stored locally nor named in a delivered answer", pname(y.id))
				return
			}
			for _, prev := range got[:nChecked] {
				if prev.id == y.id && !(prev.addrs == 0 && y.addrs > 0) {
					x.Failf("C08/fullrt/repeated", "%s was yielded again (first with %d addresses, now with %d)", pname(y.id), prev.addrs, y.addrs)
					return
				}
			}
		}
		distinct := map[peer.ID]bool{}
		for _, y := range got {
			distinct[y.id] = true
		}
		if c.count > 0 && len(distinct) > c.count {
			x.Failf("C08/fullrt/more-than-count", "%d distinct providers yielded, count=%d", len(distinct), c.count)
			return
		}
		if !closed {
			select {
			case <-done:
				closed = true
				answersBeforeClose = steps
			default:
			}
		}
		pend := e.net.PendingEvents()
		if closed && len(pend) == 0 {
			break
		}
		if len(pend) == 0 {
			idle++
			if idle > 8 {
				x.Failf("C08/fullrt/channel-not-closed", "the result channel is still open although nothing is pending and 4 virtual minutes passed (yielded %d)", len(got))
				return
			}
			time.Sleep(31 * time.Second)
			continue
		}
		idle = 0
		labels := make([]string, len(pend))
		for i, p := range pend {
			labels[i] = e.net.Label(p)
		}
		var g []string
		for _, y := range got {
			g = append(g, fmt.Sprintf("%s/%d", pname(y.id), y.addrs))
		}
		sd := append([]string(nil), delivered...)
		sort.Strings(sd)
		if x.Seen(fmt.Sprintf("%v|%v|%v|%v", sd, labels, g, closed)) {
			return
		}
		i := x.Choose(len(pend), vmc.Order, "deliver "+fmt.Sprint(labels))
		steps++
		delivered = append(delivered, labels[i])
		time.Sleep(7 * time.Millisecond)
		e.net.Deliver(pend[i])
	}
	if c.count == 0 && answersBeforeClose == steps {
		have := map[peer.ID]bool{}
		for _, y := range got {
			have[y.id] = true
		}
		for id := range local {
			if !have[id] {
				x.Failf("C08/fullrt/local-provider-missing", "count=0: locally stored provider %s never yielded", pname(id))
				return
			}
		}
	}
	var names []string
	for _, y := range got {
		names = append(names, fmt.Sprintf("%s/%d", pname(y.id), y.addrs))
	}
	sort.Strings(names)
	x.Eval(len(got) > 0)
	x.Outcome("%v", names)
}
