//go:build verif

package fullrt

import (
	"bytes"
	"context"
	"fmt"
	"sort"
	"strings"
	"testing"
	"testing/synctest"
	"time"

	"github.com/ipfs/go-cid"
	"github.com/libp2p/go-libp2p/core/peer"
	ma "github.com/multiformats/go-multiaddr"
	mh "github.com/multiformats/go-multihash"

	"github.com/libp2p/go-libp2p-kad-dht/internal/vmc"
	"github.com/libp2p/go-libp2p-kad-dht/internal/vmc/kid"
	"github.com/libp2p/go-libp2p-kad-dht/internal/vmc/sim"
	pb "github.com/libp2p/go-libp2p-kad-dht/pb"
)

// C06 (accelerated client): PutValue / Provide / ProvideMany / PutMany store locally first and
// send every one of the K nearest crawled peers exactly one message with the right content,
// whatever subset of recipients fails or stays silent and in whatever order they answer.

type c06fcfg struct {
	op         string
	behaviours []string
	hostAddrs  string // "public" | "public+private" | "none"
	frac       float64
	instant    bool // every recipient answers at once (one worker after the other), default success-wait fraction
}

func c06fConfigs(tier string) []vmc.Cfg {
	beh := []string{sim.BHonest, sim.BDialFail, sim.BReqFail, sim.BSilent}
	var out []vmc.Cfg
	for _, op := range []string{"putvalue", "provide", "providemany", "putmany"} {
		for m := 0; m < 64; m++ {
			as := []string{beh[m%4], beh[(m/4)%4], beh[(m/16)%4]}
			for _, ha := range []string{"public", "public+private", "none"} {
				if ha != "public" && (m != 0 || !strings.HasPrefix(op, "provide")) {
					continue
				}
				out = append(out, vmc.Cfg{Name: fmt.Sprintf("fullrt-puts/%s/%s/addrs-%s", op, strings.Join(as, ","), ha), Data: c06fcfg{op, as, ha, 1, false}})
			}
		}
		// recipients that answer at once are handled one after the other by the bulk workers, so the
		// "enough successes, stop after 500 ms" rule of the fan-out is in play (default fraction 0.3)
		beh3 := []string{sim.BHonest, sim.BDialFail, sim.BReqFail}
		for m := 0; m < 27; m++ {
			as := []string{beh3[m%3], beh3[(m/3)%3], beh3[(m/9)%3]}
			for _, frac := range []float64{0.3, 1} {
				out = append(out, vmc.Cfg{Name: fmt.Sprintf("fullrt-puts/%s/%s/instant/frac%.1f", op, strings.Join(as, ","), frac), Data: c06fcfg{op, as, "public", frac, true}})
			}
		}
	}
	return out
}

func TestVMC_C06fullrt(t *testing.T) {
	vmc.Main(t, vmc.Harness{ID: "C06", Configs: c06fConfigs, Run: c06fRun, Bubble: true})
}

func c06fRun(x *vmc.X, cfg vmc.Cfg) {
	c := cfg.Data.(c06fcfg)
	e, err := newFRT(3, 0, WithSuccessWaitFraction(c.frac))
	if err != nil {
		x.Failf("C06/setup", "%v", err)
		return
	}
	defer e.close()
	pub, priv := ma.StringCast("/ip4/8.8.4.4/tcp/4001"), ma.StringCast("/ip4/10.1.2.3/tcp/4001")
	switch c.hostAddrs {
	case "public":
		e.h.SetAddrs([]ma.Multiaddr{pub})
	case "public+private":
		e.h.SetAddrs([]ma.Multiaddr{pub, priv})
	case "none":
		e.h.SetAddrs(nil)
	}
	mhk, mhk2 := kid.Mh("000", 0), kid.Mh("100", 0)
	pcid := cid.NewCidV1(cid.Raw, mhk)
	vkey, vkey2 := kid.KeyWithPrefix("v", "000", 0), kid.KeyWithPrefix("v", "100", 0)
	var crawl []crawled
	var ids []peer.ID
	// four crawled peers, K = 3: the farthest one must not be written to
	for i, cell := range []string{"000", "001", "100", "111"} {
		id := kid.Peer(cell, 6)
		ids = append(ids, id)
		b := sim.BHonest
		if i < 3 {
			b = c.behaviours[i]
		}
		e.w.Add(fmt.Sprintf("p%d", i), id, b)
		crawl = append(crawl, crawled{id, i})
	}
	e.net.Instant = true
	e.recrawl(crawl)
	e.net.Instant = c.instant
	ctx, cancelOp := context.WithCancel(context.Background())
	defer func() { cancelOp(); synctest.Wait() }() // pruned executions leave the operation in flight
	done := make(chan error, 1)
	val, val2 := sim.Val(5, "mine"), sim.Val(6, "other")
	switch c.op {
	case "putvalue":
		go func() { done <- e.frt.PutValue(ctx, vkey, val) }()
	case "provide":
		go func() { done <- e.frt.Provide(ctx, pcid, true) }()
	case "providemany":
		go func() { done <- e.frt.ProvideMany(ctx, []mh.Multihash{mhk, mhk2}) }()
	case "putmany":
		go func() { done <- e.frt.PutMany(ctx, []string{vkey, vkey2}, [][]byte{val, val2}) }()
	}
	var opErr error
	finished := false
	checkedLocal := false
	idle, steps := 0, 0
	var delivered []string
	for {
		synctest.Wait()
		// local first: as soon as a write is on the wire the local store has it
		// (PutValue and Provide only: the bulk operations ProvideMany/PutMany only send, they are not
		// part of the property's statement about local storage)
		if !checkedLocal && (c.op == "putvalue" || c.op == "provide") {
			for _, le := range e.net.Log {
				if le.What != "req" && le.What != "msg" {
					continue
				}
				switch le.Type {
				case pb.Message_PUT_VALUE:
					rec, err := e.frt.valueStore.Get(ctx, string(le.Msg.GetKey()))
					if err != nil || rec == nil {
						x.Failf("C06/fullrt/not-stored-locally-first", "a PUT_VALUE is on the wire but the local store returns %v, %v", rec, err)
						return
					}
					checkedLocal = true
				case pb.Message_ADD_PROVIDER:
					provs, err := e.frt.ProviderManager.GetProviders(ctx, le.Msg.GetKey())
					self := false
					for _, p := range provs {
						if p.ID == e.h.ID() {
							self = true
						}
					}
					if err != nil || !self {
						x.Failf("C06/fullrt/not-recorded-locally-first", "an ADD_PROVIDER is on the wire but the local provider store does not list self (%v, %v)", provs, err)
						return
					}
					checkedLocal = true
				}
			}
		}
		if !finished {
			select {
			case opErr = <-done:
				finished = true
			default:
			}
		}
		pend := e.net.PendingEvents()
		if finished && len(pend) == 0 {
			break
		}
		if len(pend) == 0 {
			idle++
			if idle > 8 {
				x.Failf("C06/fullrt/hang", "%s has not returned", c.op)
				return
			}
			time.Sleep(31 * time.Second)
			continue
		}
		idle = 0
		labels := make([]string, len(pend))
		for i, p := range pend {
			labels[i] = e.net.Label(p)
		}
		sd := append([]string(nil), delivered...)
		sort.Strings(sd)
		if x.Seen(fmt.Sprintf("%v|%v|%v", sd, labels, finished)) {
			return
		}
		i := x.Choose(len(pend), vmc.Order, "deliver "+fmt.Sprint(labels))
		steps++
		delivered = append(delivered, labels[i])
		time.Sleep(7 * time.Millisecond)
		e.net.Deliver(pend[i])
	}
	// recipients and payload from the simulator's log
	type sent struct{ n int }
	want := map[string][]peer.ID{} // key -> K nearest crawled peers
	keys := []string{}
	msgType := pb.Message_PUT_VALUE
	switch c.op {
	case "putvalue":
		keys = []string{vkey}
	case "putmany":
		keys = []string{vkey, vkey2}
	case "provide":
		keys, msgType = []string{string(mhk)}, pb.Message_ADD_PROVIDER
	case "providemany":
		keys, msgType = []string{string(mhk), string(mhk2)}, pb.Message_ADD_PROVIDER
	}
	for _, k := range keys {
		want[k] = sim.SortByDistance(append([]peer.ID{}, ids...), k)[:3]
	}
	if c.hostAddrs == "none" && msgType == pb.Message_ADD_PROVIDER {
		for _, le := range e.net.Log {
			if le.Type == pb.Message_ADD_PROVIDER && (le.What == "req" || le.What == "msg") {
				x.Failf("C06/fullrt/provider-without-address", "an ADD_PROVIDER was sent although the host has no address")
				return
			}
		}
		x.Eval(true)
		x.Outcome("%s no-address err=%v", c.op, opErr != nil)
		return
	}
	got := map[string]map[peer.ID]int{}
	for _, le := range e.net.Log {
		if (le.What != "req" && le.What != "msg") || le.Type != msgType {
			continue
		}
		k := string(le.Msg.GetKey())
		if got[k] == nil {
			got[k] = map[peer.ID]int{}
		}
		got[k][le.To]++
		switch msgType {
		case pb.Message_PUT_VALUE:
			rec := le.Msg.GetRecord()
			wv := val
			if k == vkey2 {
				wv = val2
			}
			if rec == nil || string(rec.GetKey()) != k || !bytes.Equal(rec.GetValue(), wv) {
				x.Failf("C06/fullrt/put-payload", "PUT_VALUE to %s carries %v, expected key %q value %q", e.w.Name(le.To), rec, k, wv)
				return
			}
		case pb.Message_ADD_PROVIDER:
			pp := le.Msg.GetProviderPeers()
			if len(pp) != 1 || peer.ID(pp[0].GetId()) != e.h.ID() {
				x.Failf("C06/fullrt/provider-payload", "ADD_PROVIDER to %s names %d providers (want exactly self)", e.w.Name(le.To), len(pp))
				return
			}
			var as []string
			for _, a := range pp[0].Addresses() {
				as = append(as, a.String())
			}
			sort.Strings(as)
			wantAs := []string{pub.String()}
			if c.hostAddrs == "public+private" {
				wantAs = []string{priv.String(), pub.String()}
			}
			if fmt.Sprint(as) != fmt.Sprint(wantAs) {
				x.Failf("C06/fullrt/provider-addresses", "ADD_PROVIDER to %s carries %v, the host addresses are %v", e.w.Name(le.To), as, wantAs)
				return
			}
		}
	}
	for _, k := range keys {
		// a recipient whose dial fails gets no message; everyone else among the K nearest gets exactly one
		for _, p := range want[k] {
			n := got[k][p]
			dialFails := e.w.Peers[p].Behaviour == sim.BDialFail
			if n > 1 || (n == 0 && !dialFails) {
				x.Failf("C06/fullrt/recipients", "%s for key %s: %s received %d messages (K nearest crawled peers: %v; behaviours %v)", c.op, kid.BitsOf([]byte(k), 3), e.w.Name(p), n, e.w.Names(want[k]), c.behaviours)
				return
			}
		}
		for p, n := range got[k] {
			in := false
			for _, q := range want[k] {
				if q == p {
					in = true
				}
			}
			if !in && n > 0 {
				x.Failf("C06/fullrt/foreign-recipient", "%s for key %s was also sent to %s, which is not among the K nearest crawled peers %v", c.op, kid.BitsOf([]byte(k), 3), e.w.Name(p), e.w.Names(want[k]))
				return
			}
		}
	}
	x.Eval(steps > 0)
	x.Outcome("%s err=%v", c.op, opErr != nil)
}
