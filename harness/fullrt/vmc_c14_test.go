//go:build verif

package fullrt

import (
	"context"
	"errors"
	"fmt"
	"strings"
	"testing"
	"testing/synctest"
	"time"

	"github.com/ipfs/go-cid"
	"github.com/libp2p/go-libp2p/core/host"
	"github.com/libp2p/go-libp2p/core/peer"
	"github.com/libp2p/go-libp2p/core/protocol"
	ma "github.com/multiformats/go-multiaddr"
	mh "github.com/multiformats/go-multihash"

	kaddht "github.com/libp2p/go-libp2p-kad-dht"
	"github.com/libp2p/go-libp2p-kad-dht/crawler"
	internalConfig "github.com/libp2p/go-libp2p-kad-dht/internal/config"
	"github.com/libp2p/go-libp2p-kad-dht/internal/vmc"
	"github.com/libp2p/go-libp2p-kad-dht/internal/vmc/kid"
	"github.com/libp2p/go-libp2p-kad-dht/internal/vmc/sim"
	pb "github.com/libp2p/go-libp2p-kad-dht/pb"
	"github.com/libp2p/go-libp2p-kad-dht/records"
)

// C14 (accelerated DHT): Close at every quiescent instant of an in-flight operation or of a
// running crawl (the crawler is a gate that does not observe cancellation), for every subsystem
// combination; constructor failure points.

type c14fcfg struct {
	kind string // close | ctor
	subs string // all | noprov | novalues
	op   string
	fail string
}

var c14fOps = []string{"none", "crawl", "providemany", "putvalue", "getvalue", "findprov", "closest"}

func c14fConfigs(tier string) []vmc.Cfg {
	var out []vmc.Cfg
	for _, s := range []string{"all", "noprov", "novalues"} {
		for _, op := range c14fOps {
			out = append(out, vmc.Cfg{Name: fmt.Sprintf("close/%s/%s", s, op), Data: c14fcfg{kind: "close", subs: s, op: op}})
		}
		for _, f := range []string{"subscribe", "provider-option", "bad-dht-option", "bad-option", "no-bootstrap"} {
			out = append(out, vmc.Cfg{Name: fmt.Sprintf("ctor/%s/%s", s, f), Data: c14fcfg{kind: "ctor", subs: s, fail: f}})
		}
	}
	return out
}

func TestVMC_C14fullrt(t *testing.T) {
	vmc.Main(t, vmc.Harness{ID: "C14", Configs: c14fConfigs, Run: c14fRun, Bubble: true})
}

func c14fLeaks() []string {
	var real []string
	for _, g := range vmc.LeakedGoroutines() {
		if strings.Contains(g, "pstoremem") || strings.Contains(g, "synctest.") || strings.Contains(g, "c14f") {
			continue
		}
		real = append(real, g)
	}
	return real
}

func c14fSubs(s string) []kaddht.Option {
	switch s {
	case "noprov":
		return []kaddht.Option{kaddht.DisableProviders()}
	case "novalues":
		return []kaddht.Option{kaddht.DisableValues()}
	}
	return nil
}

// gateCrawler reports a preset crawl but only after its gate was opened; it ignores cancellation
// while it waits, like a crawl in the middle of its network round trips.
type gateCrawler struct {
	stub    *stubCrawler
	gate    chan struct{}
	waiting bool
}

func (g *gateCrawler) Run(ctx context.Context, a []*peer.AddrInfo, ok crawler.HandleQueryResult, fail crawler.HandleQueryFail) {
	if g.gate != nil {
		g.waiting = true
		<-g.gate
		g.waiting = false
	}
	g.stub.Run(ctx, a, ok, fail)
}

func c14fRun(x *vmc.X, cfg vmc.Cfg) {
	c := cfg.Data.(c14fcfg)
	self := kid.Peer("0110", 6)
	w := sim.NewWorld(self, 2)
	net := sim.NewNet(w)
	h := sim.NewHost(self, ma.StringCast("/ip4/8.8.4.4/tcp/4001"))
	h.DialFn = net.Dial
	bus := &sim.CountingBus{Bus: h.EventBus()}
	h.SetEventBus(bus)
	hostClosed := false
	defer func() {
		if !hostClosed {
			h.Close()
		}
	}()
	stub := &stubCrawler{h: h}
	gc := &gateCrawler{stub: stub}
	dhtOpts := []kaddht.Option{kaddht.BucketSize(2), kaddht.Validator(sim.Validator()),
		kaddht.WithCustomMessageSender(func(_ host.Host, protos []protocol.ID) pb.MessageSenderWithDisconnect { return net.Sender("fullrt") })}
	if c.fail != "no-bootstrap" {
		dhtOpts = append(dhtOpts, kaddht.BootstrapPeers())
	}
	dhtOpts = append(dhtOpts, c14fSubs(c.subs)...)
	injected := errors.New("c14f: injected option failure")
	opts := []Option{WithCrawler(gc), WithSuccessWaitFraction(1), WithCrawlInterval(24 * time.Hour)}
	switch c.fail {
	case "subscribe":
		bus.FailAt = 1
	case "provider-option":
		opts = append(opts, WithProviderManagerOptions(func(*records.ProviderManager) error { return injected }))
	case "bad-dht-option":
		dhtOpts = append(dhtOpts, func(*internalConfig.Config) error { return injected })
	case "bad-option":
		opts = append(opts, func(*config) error { return injected })
	}
	opts = append(opts, DHTOption(dhtOpts...))
	if c.kind == "ctor" {
		frt, err := NewFullRT(h, "/sim", opts...)
		synctest.Wait()
		if err == nil {
			if !(c.fail == "provider-option" && c.subs == "noprov") {
				x.Failf("C14/fullrt/ctor-no-error", "NewFullRT succeeded although %s was injected", c.fail)
			}
			frt.Close()
			synctest.Wait()
			x.Eval(false)
			return
		}
		time.Sleep(time.Second)
		synctest.Wait()
		if left := c14fLeaks(); len(left) > 0 {
			x.Failf("C14/fullrt/ctor-leak/"+c.fail, "NewFullRT failed (%v, %s) and left %d goroutine(s): %v", err, c.subs, len(left), left)
		}
		if n := bus.Open(); n != 0 {
			x.Failf("C14/fullrt/ctor-subscription-left/"+c.fail, "NewFullRT failed (%v, %s) and left %d event bus subscription(s) open", err, c.subs, n)
		}
		x.Eval(true)
		x.Outcome("%s -> error", c.fail)
		return
	}

	// a small honest world, crawled before the operation starts
	cells := []string{"000", "001", "100"}
	var crawl []crawled
	mhk := kid.Mh("000", 0)
	pcid := cid.NewCidV1(cid.Raw, mhk)
	vkey := kid.KeyWithPrefix("v", "000", 0)
	for i, cell := range cells {
		id := kid.Peer(cell, 6)
		w.Add(fmt.Sprintf("p%d", i), id, sim.BHonest)
		p := w.Peers[id]
		p.Records[vkey] = sim.Val(1, "from-"+p.Name)
		p.Providers[string(mhk)] = []peer.AddrInfo{{ID: kid.Peer("101", 5), Addrs: []ma.Multiaddr{ma.StringCast("/ip4/9.9.9.9/tcp/4001")}}}
		crawl = append(crawl, crawled{id, i})
	}
	stub.crawl = crawl
	frt, err := NewFullRT(h, "/sim", opts...)
	if err != nil {
		x.Failf("C14/setup", "%v", err)
		return
	}
	frt.shuffle = func(int, func(int, int)) {}
	synctest.Wait()
	closeStarted, closeReturned := false, false
	defer func() {
		if !closeStarted || closeReturned {
			frt.Close()
		}
	}()

	ctx, cancelOp := context.WithCancel(context.Background())
	defer cancelOp()
	doneCh := make(chan string, 1)
	opRunning := false
	run := func(f func() string) {
		opRunning = true
		go func() { doneCh <- f() }()
	}
	switch c.op {
	case "crawl":
		gc.gate = make(chan struct{})
		run(func() string { return fmt.Sprint(frt.TriggerRefresh(ctx)) })
	case "providemany":
		run(func() string { return fmt.Sprint(frt.ProvideMany(ctx, []mh.Multihash{mhk, kid.Mh("100", 0)})) })
	case "putvalue":
		run(func() string { return fmt.Sprint(frt.PutValue(ctx, vkey, sim.Val(5, "mine"))) })
	case "getvalue":
		run(func() string { _, err := frt.GetValue(ctx, vkey); return fmt.Sprint(err) })
	case "findprov":
		run(func() string {
			n := 0
			for range frt.FindProvidersAsync(ctx, pcid, 0) {
				n++
			}
			return fmt.Sprint(n)
		})
	case "closest":
		run(func() string { _, err := frt.GetClosestPeers(ctx, vkey); return fmt.Sprint(err) })
	}
	result := ""
	opDone := !opRunning
	poll := func() {
		if opDone {
			return
		}
		select {
		case result = <-doneCh:
			opDone = true
		default:
		}
	}
	steps := 0
	var delivered []string
	for {
		synctest.Wait()
		poll()
		pend := net.PendingEvents()
		labels := make([]string, len(pend))
		for i, p := range pend {
			labels[i] = net.Label(p)
		}
		n := len(pend)
		extra := []string{"close"}
		if gc.waiting {
			extra = append(extra, "crawl-proceeds")
		}
		if steps > 60 {
			x.Failf("C14/runaway", "more than 60 steps")
			return
		}
		if n > 0 && x.Seen(fmt.Sprintf("%v|%v|%v", delivered, labels, opDone)) {
			return
		}
		i := x.Choose(n+len(extra), vmc.Order, "deliver "+fmt.Sprint(labels)+" "+fmt.Sprint(extra))
		if i < n {
			steps++
			delivered = append(delivered, labels[i])
			time.Sleep(7 * time.Millisecond)
			net.Deliver(pend[i])
			continue
		}
		if extra[i-n] == "crawl-proceeds" {
			steps++
			delivered = append(delivered, "crawl")
			close(gc.gate)
			gc.gate = nil
			continue
		}
		break
	}
	crawlHeld := gc.waiting
	x.Obs("close after %d steps, op done=%v crawl held=%v", steps, opDone, crawlHeld)
	closeDone := make(chan error, 1)
	closeStarted = true
	go func() { closeDone <- frt.Close() }()
	var closeErr error
	for round := 0; round < 200; round++ {
		synctest.Wait()
		poll()
		if !closeReturned {
			select {
			case closeErr = <-closeDone:
				closeReturned = true
				if gc.waiting {
					x.Failf("C14/fullrt/close-returned-early", "Close returned while the crawl started by the instance is still running")
					close(gc.gate)
					return
				}
			default:
			}
		}
		if closeReturned && opDone {
			break
		}
		if pend := net.PendingEvents(); len(pend) > 0 {
			time.Sleep(7 * time.Millisecond)
			net.Deliver(pend[0])
			continue
		}
		if gc.waiting && round > 3 {
			close(gc.gate) // the crawl's round trips end
			gc.gate = nil
			continue
		}
		if round > 150 {
			break
		}
		time.Sleep(31 * time.Second)
	}
	if !closeReturned {
		x.Failf("C14/fullrt/close-hangs", "Close (%s) during %s after %d steps has not returned; goroutines: %v", c.subs, c.op, steps, c14fLeaks())
		return
	}
	if closeErr != nil {
		x.Failf("C14/fullrt/close-error", "%v", closeErr)
	}
	if !opDone {
		x.Failf("C14/fullrt/op-hangs-after-close", "%s in flight at Close never returned; goroutines: %v", c.op, c14fLeaks())
		return
	}
	second := make(chan error, 1)
	go func() { second <- frt.Close() }()
	synctest.Wait()
	select {
	case <-second:
	default:
		time.Sleep(time.Minute)
		synctest.Wait()
		select {
		case <-second:
		default:
			x.Failf("C14/fullrt/second-close-hangs", "goroutines: %v", c14fLeaks())
			return
		}
	}
	// operations after Close return
	actx, acancel := context.WithTimeout(context.Background(), 10*time.Second)
	after := make(chan struct{})
	go func() {
		defer close(after)
		_, _ = frt.GetClosestPeers(actx, vkey)
		_ = frt.Provide(actx, pcid, true)
		_ = frt.TriggerRefresh(actx)
	}()
	for round := 0; round < 50; round++ {
		synctest.Wait()
		select {
		case <-after:
			round = 100
		default:
			if pend := net.PendingEvents(); len(pend) > 0 {
				net.Deliver(pend[0])
			} else {
				time.Sleep(11 * time.Second)
			}
		}
	}
	acancel()
	synctest.Wait()
	select {
	case <-after:
	default:
		x.Failf("C14/fullrt/op-after-close-hangs", "operations started after Close have not returned 10s after their deadline; goroutines: %v", c14fLeaks())
		return
	}
	cancelOp()
	h.ResetAllStreams()
	time.Sleep(2 * time.Minute)
	synctest.Wait()
	for _, p := range net.PendingEvents() {
		net.DeliverResult(p, nil, sim.ErrSimTimeout)
	}
	synctest.Wait()
	if left := c14fLeaks(); len(left) > 0 {
		x.Failf("C14/fullrt/leak/"+left[0], "after Close (%s, during %s after %d steps) %d goroutine(s) remain: %v", c.subs, c.op, steps, len(left), left)
	}
	if n := bus.Open(); n != 0 {
		x.Failf("C14/fullrt/subscription-left", "%d event bus subscription(s) still open after Close", n)
	}
	hostClosed = true
	h.Close()
	synctest.Wait()
	x.Eval(opRunning)
	x.Outcome("op=%s closed-after=%d held=%v result=%s", c.op, steps, crawlHeld, strings.SplitN(result, ":", 2)[0])
}
