//go:build verif

package fullrt

import (
	"context"
	"fmt"
	"sort"
	"strings"
	"testing"
	"testing/synctest"
	"time"

	"github.com/ipfs/go-cid"
	"github.com/libp2p/go-libp2p/core/peer"
	ma "github.com/multiformats/go-multiaddr"
	mh "github.com/multiformats/go-multihash"

	kaddht "github.com/libp2p/go-libp2p-kad-dht"
	"github.com/libp2p/go-libp2p-kad-dht/internal/vmc"
	"github.com/libp2p/go-libp2p-kad-dht/internal/vmc/kid"
	"github.com/libp2p/go-libp2p-kad-dht/internal/vmc/sim"
)

// C03 (accelerated client): every routing operation of FullRT - the execOnMany fan-out with its
// success fraction, 500 ms ticker and per-operation timeout - terminates once every contacted peer
// answered, failed or timed out, returns promptly after cancellation, closes its channels and
// leaves nothing running after Close: for every assignment of {honest, dial-fail, request-fail,
// silent} to 3 crawled peers, every arrival order and every cancellation instant (one deviation).

type c03fcfg struct {
	op         string
	frac       float64
	behaviours []string
	instant    bool // every responder answers the moment it is asked: several answers are in the search's hands at once
}

var c03fOps = []string{"putvalue", "provide", "getvalue", "searchvalue", "findprov-c0", "findprov-c1", "findpeer", "providemany", "putmany"}

func c03fConfigs(tier string) []vmc.Cfg {
	beh := []string{sim.BHonest, sim.BDialFail, sim.BReqFail, sim.BSilent}
	var out []vmc.Cfg
	for _, op := range c03fOps {
		for _, frac := range []float64{0.3, 1} {
			for m := 0; m < 64; m++ {
				as := []string{beh[m%4], beh[(m/4)%4], beh[(m/16)%4]}
				out = append(out, vmc.Cfg{Name: fmt.Sprintf("fullrt/%s/frac%.1f/%s", op, frac, strings.Join(as, ",")), Budget: 1, Data: c03fcfg{op: op, frac: frac, behaviours: as}})
			}
		}
	}
	// five responders (K=5) for the value searches with a quorum: more valid answers than the search needs
	for _, op := range []string{"getvalue-q1", "searchvalue-q1", "getvalue-q2"} {
		for _, frac := range []float64{0.3, 1} {
			for i := -1; i < 5; i++ {
				for _, b := range beh[1:] {
					as := []string{sim.BHonest, sim.BHonest, sim.BHonest, sim.BHonest, sim.BHonest}
					if i >= 0 {
						as[i] = b
					} else if b != beh[1] {
						continue
					}
					out = append(out, vmc.Cfg{Name: fmt.Sprintf("fullrt/%s/frac%.1f/%s", op, frac, strings.Join(as, ",")), Budget: 1, Data: c03fcfg{op: op, frac: frac, behaviours: as}})
					if b != sim.BSilent {
						out = append(out, vmc.Cfg{Name: fmt.Sprintf("fullrt/%s/frac%.1f/%s/instant", op, frac, strings.Join(as, ",")), Budget: 1, Data: c03fcfg{op: op, frac: frac, behaviours: as, instant: true}})
					}
				}
			}
		}
	}
	return out
}

func TestVMC_C03fullrt(t *testing.T) {
	vmc.Main(t, vmc.Harness{ID: "C03", Configs: c03fConfigs, Run: c03fRun, Bubble: true})
}

func c03fLeaks() []string {
	var real []string
	for _, g := range vmc.LeakedGoroutines() {
		if strings.Contains(g, "pstoremem") || strings.Contains(g, "synctest.") || strings.Contains(g, "c03f") {
			continue
		}
		real = append(real, g)
	}
	return real
}

func c03fRun(x *vmc.X, cfg vmc.Cfg) {
	c := cfg.Data.(c03fcfg)
	e, err := newFRT(len(c.behaviours), 0, WithSuccessWaitFraction(c.frac))
	if err != nil {
		x.Failf("C03/setup", "%v", err)
		return
	}
	closed := false
	defer func() {
		if !closed {
			e.close()
		}
	}()
	mhk := kid.Mh("000", 0)
	pcid := cid.NewCidV1(cid.Raw, mhk)
	vkey := kid.KeyWithPrefix("v", "000", 0)
	var crawl []crawled
	var ids []peer.ID
	for i, cell := range []string{"000", "001", "100", "010", "110"}[:len(c.behaviours)] {
		id := kid.Peer(cell, 6)
		ids = append(ids, id)
		e.w.Add(fmt.Sprintf("p%d", i), id, c.behaviours[i])
		p := e.w.Peers[id]
		p.Records[vkey] = sim.Val(1+i%2, "from-"+p.Name)
		p.Providers[string(mhk)] = []peer.AddrInfo{{ID: kid.Peer("101", 5), Addrs: []ma.Multiaddr{ma.StringCast("/ip4/9.9.9.9/tcp/4001")}}}
		crawl = append(crawl, crawled{id, i})
	}
	e.net.Instant = true
	e.recrawl(crawl)
	e.net.Instant = c.instant
	e.net.InstantDial = c.instant

	ctx, cancel := context.WithCancel(context.Background())
	defer cancel()
	doneCh := make(chan string, 1)
	run := func(f func() string) { go func() { doneCh <- f() }() }
	switch c.op {
	case "putvalue":
		run(func() string { return fmt.Sprintf("err=%v", e.frt.PutValue(ctx, vkey, sim.Val(5, "mine")) != nil) })
	case "provide":
		run(func() string { return fmt.Sprintf("err=%v", e.frt.Provide(ctx, pcid, true) != nil) })
	case "getvalue":
		run(func() string { _, err := e.frt.GetValue(ctx, vkey); return fmt.Sprintf("err=%v", err != nil) })
	case "getvalue-q1", "getvalue-q2":
		q := int(c.op[len(c.op)-1] - '0')
		run(func() string { _, err := e.frt.GetValue(ctx, vkey, kaddht.Quorum(q)); return fmt.Sprintf("err=%v", err != nil) })
	case "searchvalue-q1":
		run(func() string {
			ch, err := e.frt.SearchValue(ctx, vkey, kaddht.Quorum(1))
			if err != nil {
				return "err"
			}
			n := 0
			for range ch {
				n++
			}
			return fmt.Sprintf("values=%d", min(n, 1))
		})
	case "searchvalue":
		run(func() string {
			ch, err := e.frt.SearchValue(ctx, vkey)
			if err != nil {
				return "err"
			}
			n := 0
			for range ch {
				n++
			}
			return fmt.Sprintf("values=%d", min(n, 1))
		})
	case "findprov-c0", "findprov-c1":
		count := int(c.op[len(c.op)-1] - '0')
		run(func() string {
			var got []string
			for ai := range e.frt.FindProvidersAsync(ctx, pcid, count) {
				got = append(got, e.w.Name(ai.ID))
			}
			sort.Strings(got)
			return fmt.Sprint(len(got) > 0)
		})
	case "findpeer":
		run(func() string { _, err := e.frt.FindPeer(ctx, kid.Peer("111", 3)); return fmt.Sprintf("err=%v", err != nil) })
	case "providemany":
		run(func() string {
			return fmt.Sprintf("err=%v", e.frt.ProvideMany(ctx, []mh.Multihash{mhk, kid.Mh("100", 0)}) != nil)
		})
	case "putmany":
		run(func() string {
			return fmt.Sprintf("err=%v", e.frt.PutMany(ctx, []string{vkey, kid.KeyWithPrefix("v", "100", 0)}, [][]byte{sim.Val(5, "a"), sim.Val(5, "b")}) != nil)
		})
	}
	result := ""
	isDone := func() bool {
		select {
		case result = <-doneCh:
			return true
		default:
			return false
		}
	}
	cancelled := false
	idle, steps := 0, 0
	for {
		synctest.Wait()
		if isDone() {
			break
		}
		pend := e.net.PendingEvents()
		if len(pend) == 0 {
			idle++
			if idle > 8 {
				x.Failf("C03/fullrt/hang/"+c.op, "%s (%v, wait fraction %.1f) has not returned although every contacted peer has answered, failed or timed out and 4 virtual minutes passed (cancelled=%v); goroutines: %v", c.op, c.behaviours, c.frac, cancelled, c03fLeaks())
				closed = true
				return
			}
			time.Sleep(31 * time.Second)
			continue
		}
		idle = 0
		if steps > 120 {
			x.Failf("C03/fullrt/runaway", "more than 120 deliveries")
			return
		}
		labels := make([]string, len(pend))
		for i, p := range pend {
			labels[i] = e.net.Label(p)
		}
		n := len(pend)
		costs := make([]int, n, n+3)
		extra := []string{}
		if !cancelled {
			extra = append(extra, "cancel", "+600ms", "+6s")
			costs = append(costs, 1, 1, 1)
		}
		i := x.ChooseCost(n+len(extra), "deliver "+fmt.Sprint(labels)+" "+fmt.Sprint(extra), costs)
		if i < n {
			steps++
			time.Sleep(7 * time.Millisecond)
			e.net.Deliver(pend[i])
			continue
		}
		switch extra[i-n] {
		case "cancel":
			cancelled = true
			cancel()
			synctest.Wait()
			if !isDone() {
				time.Sleep(time.Second)
				synctest.Wait()
				if !isDone() {
					x.Failf("C03/fullrt/cancel-not-honoured/"+c.op, "%s (%v, wait fraction %.1f) has not returned 1 virtual second after its context was cancelled (pending %d); goroutines: %v", c.op, c.behaviours, c.frac, len(e.net.PendingEvents()), c03fLeaks())
					closed = true
					return
				}
			}
			doneCh <- result
		case "+600ms":
			cancelled = true // deviation budget spent
			time.Sleep(600 * time.Millisecond)
		case "+6s":
			cancelled = true
			time.Sleep(6 * time.Second)
		}
	}
	x.Obs("%s -> %s", c.op, result)
	// whatever is still in flight is answered (late answers), then the instance is closed
	for round := 0; round < 60; round++ {
		pend := e.net.PendingEvents()
		if len(pend) == 0 {
			break
		}
		time.Sleep(7 * time.Millisecond)
		e.net.Deliver(pend[0])
		synctest.Wait()
	}
	time.Sleep(2 * time.Minute)
	synctest.Wait()
	for _, p := range e.net.PendingEvents() {
		e.net.DeliverResult(p, nil, sim.ErrSimTimeout)
	}
	synctest.Wait()
	closed = true
	e.frt.Close()
	synctest.Wait()
	if left := c03fLeaks(); len(left) > 0 {
		x.Failf("C03/fullrt/leak/"+c.op+"/"+left[0], "after %s returned (caller context cancelled: %v), 2 virtual minutes and Close, %d goroutine(s) remain: %v", c.op, cancelled, len(left), left)
	}
	e.h.Close()
	synctest.Wait()
	x.Eval(steps > 0)
	x.Outcome("%s %s", c.op, result)
}
