//go:build verif

package dht

import (
	"bytes"
	"context"
	"fmt"
	"sort"
	"strings"
	"testing"
	"testing/synctest"
	"time"

	"github.com/ipfs/go-cid"
	"github.com/libp2p/go-libp2p/core/peer"
	ma "github.com/multiformats/go-multiaddr"
	manet "github.com/multiformats/go-multiaddr/net"

	"github.com/libp2p/go-libp2p-kad-dht/internal/vmc"
	"github.com/libp2p/go-libp2p-kad-dht/internal/vmc/kid"
	"github.com/libp2p/go-libp2p-kad-dht/internal/vmc/sim"
	pb "github.com/libp2p/go-libp2p-kad-dht/pb"
)

// C06: puts and provides reach every closest peer found, with correct content; corrective puts.

type c06cfg struct {
	prelude   bool   // an earlier Provide of another key under another advertised address, one virtual second before (seed C06-i)
	op        string // putvalue, provide, optprovide, corrective
	n, k, a   int
	lookupBeh []string // per peer behaviour during the lookup
	putBeh    []string // per peer: "", "fail", "hang"
	addrMask  int      // host addresses: bit0 public, bit1 private, bit2 loopback, bit3 relay
	filter    string   // none, public-only, no-loopback
	recs      []string // corrective: per peer best/older/none
}

var c06Addrs = []string{"/ip4/8.8.8.8/tcp/4001", "/ip4/192.168.1.5/tcp/4001", "/ip4/127.0.0.1/tcp/4001", "/ip4/9.9.9.9/tcp/4001/p2p/QmNnooDu7bfjPFoTZYxMNLWUQJyrVwtbZg5gBMjTezGAJN/p2p-circuit"}

func c06Filter(name string) func([]ma.Multiaddr) []ma.Multiaddr {
	switch name {
	case "public-only":
		return func(in []ma.Multiaddr) []ma.Multiaddr {
			var out []ma.Multiaddr
			for _, a := range in {
				if manet.IsPublicAddr(a) {
					out = append(out, a)
				}
			}
			return out
		}
	case "no-loopback":
		return func(in []ma.Multiaddr) []ma.Multiaddr {
			var out []ma.Multiaddr
			for _, a := range in {
				if !manet.IsIPLoopback(a) {
					out = append(out, a)
				}
			}
			return out
		}
	}
	return nil
}

func c06Configs(tier string) []vmc.Cfg {
	var out []vmc.Cfg
	add := func(c c06cfg) {
		out = append(out, vmc.Cfg{Name: fmt.Sprintf("%s/n%dk%da%d/lookup:%s/put:%s/addrs%x/%s/recs:%s", c.op, c.n, c.k, c.a,
			strings.Join(c.lookupBeh, ","), strings.Join(c.putBeh, ","), c.addrMask, c.filter, strings.Join(c.recs, ",")) + map[bool]string{true: "/after-provide-under-other-address", false: ""}[c.prelude], Data: c})
	}
	honest := func(n int) []string {
		o := make([]string, n)
		for i := range o {
			o[i] = sim.BHonest
		}
		return o
	}
	// 1. failing/hanging recipients x one failing peer during the lookup
	for _, op := range []string{"putvalue", "provide"} {
		for _, nk := range [][3]int{{3, 2, 2}, {4, 3, 3}} {
			n, k, a := nk[0], nk[1], nk[2]
			if tier != "thorough" && n == 4 && op == "putvalue" {
				continue
			}
			total := 1
			for i := 0; i < n; i++ {
				total *= 3
			}
			for m := 0; m < total; m++ {
				pb := make([]string, n)
				mm := m
				for i := range pb {
					pb[i] = []string{"", "fail", "hang"}[mm%3]
					mm /= 3
				}
				for lf := -1; lf < n; lf++ {
					lb := honest(n)
					if lf >= 0 {
						lb[lf] = sim.BReqFail
					}
					add(c06cfg{op: op, n: n, k: k, a: a, lookupBeh: lb, putBeh: pb, addrMask: 1, filter: "none"})
				}
			}
		}
	}
	// 2. address sets x filters
	for mask := 0; mask < 16; mask++ {
		for _, f := range []string{"none", "public-only", "no-loopback"} {
			add(c06cfg{op: "provide", n: 3, k: 2, a: 2, lookupBeh: honest(3), putBeh: []string{"", "", ""}, addrMask: mask, filter: f})
			add(c06cfg{op: "provide", n: 3, k: 2, a: 2, lookupBeh: honest(3), putBeh: []string{"", "", ""}, addrMask: mask, filter: f, prelude: true})
			if mask == 3 || mask == 0 || mask == 4 {
				add(c06cfg{op: "optprovide", n: 5, k: 4, a: 3, lookupBeh: honest(5), putBeh: []string{"", "", "", "", ""}, addrMask: mask, filter: f})
			}
		}
	}
	// 3. optimistic provide with failing recipients
	for m := 0; m < 32; m++ {
		pb := make([]string, 5)
		for i := range pb {
			if m&(1<<i) != 0 {
				pb[i] = "fail"
			}
		}
		add(c06cfg{op: "optprovide", n: 5, k: 4, a: 3, lookupBeh: honest(5), putBeh: pb, addrMask: 1, filter: "none"})
	}
	// 3b. optimistic provide when a peer fails during the lookup (the K nearest learned peers then differ
	// from the K nearest peers the lookup returns)
	for lf := 0; lf < 5; lf++ {
		for _, fb := range []string{sim.BReqFail, sim.BDialFail} {
			lb := honest(5)
			lb[lf] = fb
			add(c06cfg{op: "optprovide", n: 5, k: 4, a: 3, lookupBeh: lb, putBeh: []string{"", "", "", "", ""}, addrMask: 1, filter: "none"})
		}
	}
	// 4. corrective puts: every assignment of best/older/none
	for _, n := range []int{3, 4} {
		if tier != "thorough" && n == 4 {
			continue
		}
		total := 1
		for i := 0; i < n; i++ {
			total *= 4
		}
		for m := 0; m < total; m++ {
			recs := make([]string, n)
			mm := m
			for i := range recs {
				recs[i] = []string{"best", "older", "none", "oldest"}[mm%4]
				mm /= 4
			}
			for _, a := range []int{3, 1} {
				add(c06cfg{op: "corrective", n: n, k: 3, a: a, lookupBeh: honest(n), putBeh: make([]string, n), addrMask: 1, filter: "none", recs: recs})
			}
		}
	}
	// 5. corrective puts with a peer that fails during the search: 4 peers, K=3, one of them fails its request (or its
	// dial); the correction goes to the K nearest *non-failed* peers that did not return the best value
	for lf := 0; lf < 4; lf++ {
		for _, fb := range []string{sim.BReqFail, sim.BDialFail} {
			if tier != "thorough" && fb == sim.BDialFail {
				continue
			}
			for m := 0; m < 81; m++ {
				recs := make([]string, 4)
				mm := m
				for i := range recs {
					recs[i] = []string{"best", "older", "none"}[mm%3]
					mm /= 3
				}
				if recs[lf] != "none" {
					continue // what a failing peer would have answered does not matter
				}
				lb := honest(4)
				lb[lf] = fb
				for _, a := range []int{3, 1} {
					add(c06cfg{op: "corrective", n: 4, k: 3, a: a, lookupBeh: lb, putBeh: make([]string, 4), addrMask: 1, filter: "none", recs: recs})
				}
			}
		}
	}
	return out
}

func TestVMC_C06(t *testing.T) {
	vmc.Main(t, vmc.Harness{ID: "C06", Configs: c06Configs, Run: c06Run, Bubble: true})
}

func c06Run(x *vmc.X, cfg vmc.Cfg) {
	c := cfg.Data.(c06cfg)
	cc := c01cfg{n: c.n, k: c.k, a: c.a, b: c.k, behaviours: c.lookupBeh, knowledge: "full"}
	w, ids := c01World(cc)
	for i, id := range ids {
		w.Peers[id].PutBehaviour = c.putBeh[i]
	}
	vkey := kid.KeyWithPrefix("v", "000", 0)
	mh := kid.Mh("000", 0)
	pcid := cid.NewCidV1(cid.Raw, mh)
	lookupKey := vkey
	if c.op == "provide" || c.op == "optprovide" {
		lookupKey = string(mh)
	}
	var addrs []ma.Multiaddr
	for i, a := range c06Addrs {
		if c.addrMask&(1<<i) != 0 {
			addrs = append(addrs, ma.StringCast(a))
		}
	}
	var opts []Option
	if f := c06Filter(c.filter); f != nil {
		opts = append(opts, AddressFilter(f))
	}
	if c.op == "optprovide" {
		opts = append(opts, EnableOptimisticProvide())
	}
	l, err := newLH(x, w, lhParams{k: c.k, alpha: c.a, beta: c.k, opts: opts})
	if err != nil {
		x.Failf("C06/setup", "%v", err)
		return
	}
	defer l.close()
	l.h.SetAddrs(addrs)
	table := l.seed(ids)
	seeds := sim.SortByDistance(table, lookupKey)
	if len(seeds) > c.k {
		seeds = seeds[:c.k]
	}
	if c.op == "optprovide" {
		for i := 0; i < 8; i++ {
			k := kid.KeyWithPrefix("w", "", i)
			pre := kid.BitsOf([]byte(k), 12)
			var ps []peer.ID
			for j := 0; j < c.k; j++ {
				ps = append(ps, kid.Peer(pre, j))
			}
			_ = l.d.nsEstimator.Track(k, sim.SortByDistance(ps, k))
		}
	}
	best := sim.Val(3, "best")
	if c.op == "corrective" {
		for i, id := range ids {
			switch c.recs[i] {
			case "best":
				w.Peers[id].Records[vkey] = best
			case "older":
				w.Peers[id].Records[vkey] = sim.Val(2, "older")
			case "oldest":
				w.Peers[id].Records[vkey] = sim.Val(1, "oldest")
			}
		}
	}
	var wantAddrs []ma.Multiaddr
	if f := c06Filter(c.filter); f != nil {
		wantAddrs = f(addrs)
	} else {
		wantAddrs = addrs
	}

	if c.prelude {
		// the node advertised something else a moment ago: what goes out now is what it advertises now
		l.h.SetAddrs([]ma.Multiaddr{ma.StringCast("/ip4/7.7.7.7/tcp/4001")})
		l.net.Instant = true
		pdone := make(chan error, 1)
		go func() { pdone <- l.d.Provide(l.ctx, cid.NewCidV1(cid.Raw, kid.Mh("000", 7)), true) }()
		pret := false
		if !l.runToCompletion("C06/prelude", func() bool {
			select {
			case <-pdone:
				pret = true
			default:
			}
			return pret && len(l.net.PendingEvents()) == 0
		}, 120) {
			return
		}
		l.net.Instant = false
		l.net.Log = nil
		l.delivered = nil
		l.step = 0
		l.h.SetAddrs(addrs)
		time.Sleep(time.Second)
		synctest.Wait()
	}
	ctx, cancel := context.WithCancel(l.ctx)
	defer cancel()
	done := make(chan error, 1)
	value := sim.Val(5, "mine")
	var emitted [][]byte
	switch c.op {
	case "putvalue":
		go func() { done <- l.d.PutValue(ctx, vkey, value) }()
	case "provide", "optprovide":
		go func() { done <- l.d.Provide(ctx, pcid, true) }()
	case "corrective":
		ch, err := l.d.SearchValue(ctx, vkey, Quorum(0))
		if err != nil {
			x.Failf("C06/search-error", "%v", err)
			return
		}
		go func() {
			for v := range ch {
				emitted = append(emitted, v)
			}
			done <- nil
		}()
	}
	tr := newC01Track(x, l, c.k, lookupKey, seeds)
	msgType := pb.Message_PUT_VALUE
	if c.op == "provide" || c.op == "optprovide" {
		msgType = pb.Message_ADD_PROVIDER
	}
	firstSeen := false
	returned := false
	var opErr error
	l.onStep = func() bool {
		if !tr.step() {
			return false
		}
		if !firstSeen && c.op != "corrective" {
			for _, e := range l.net.Log {
				if (e.What == "req" || e.What == "msg") && e.Type == msgType {
					firstSeen = true
					// local first
					if c.op == "putvalue" {
						rec, err := l.d.valueStore.Get(l.ctx, vkey)
						if err != nil || rec == nil || !bytes.Equal(rec.GetValue(), value) {
							x.Failf("C06/not-stored-locally-first", "a PUT_VALUE is on the wire but the local store returns %v, %v", rec, err)
							return false
						}
					} else {
						provs, err := l.d.providerStore.GetProviders(l.ctx, mh)
						has := false
						for _, p := range provs {
							if p.ID == w.Self {
								has = true
							}
						}
						if err != nil || !has {
							x.Failf("C06/not-recorded-locally-first", "an ADD_PROVIDER is on the wire but the local provider store does not list self (%v, %v)", provs, err)
							return false
						}
					}
					break
				}
			}
		}
		if !returned {
			select {
			case opErr = <-done:
				returned = true
			default:
			}
		}
		return true
	}
	l.stateKey = func() string {
		var sent []string
		for _, e := range l.net.Log {
			if (e.What == "req" || e.What == "msg") && e.Type == msgType {
				sent = append(sent, w.Name(e.To))
			}
		}
		sort.Strings(sent)
		return fmt.Sprintf("%s|sent:%v|ret:%v|em:%d", tr.stateKey(), sent, returned, len(emitted))
	}
	if !l.runToCompletion("C06", func() bool { return returned && len(l.net.PendingEvents()) == 0 }, 120) {
		return
	}
	// expected lookup result: K nearest of learned minus failed at the end of the search phase
	var cand []peer.ID
	for p := range tr.learned {
		if !tr.failed[p] {
			cand = append(cand, p)
		}
	}
	cand = sim.SortByDistance(cand, lookupKey)
	if len(cand) > c.k {
		cand = cand[:c.k]
	}
	sentTo := map[peer.ID]int{}
	abandoned := map[peer.ID]bool{}
	for _, e := range l.net.Log {
		if e.Type != msgType && e.What != "abandon" {
			continue
		}
		switch e.What {
		case "req", "msg":
			if e.Type != msgType {
				continue
			}
			sentTo[e.To]++
			// payload
			if c.op == "putvalue" || c.op == "corrective" {
				rec := e.Msg.GetRecord()
				want := value
				if c.op == "corrective" {
					if len(emitted) == 0 {
						x.Failf("C06/corrective-without-value", "PUT_VALUE sent although the search found no value")
						return
					}
					want = emitted[len(emitted)-1] // the best value the completed search found
				}
				if rec == nil || string(rec.GetKey()) != vkey || !bytes.Equal(rec.GetValue(), want) || string(e.Msg.GetKey()) != vkey {
					x.Failf("C06/put-payload", "PUT_VALUE to %s carries %v, expected key %q value %q", w.Name(e.To), rec, vkey, want)
					return
				}
			} else {
				pp := e.Msg.GetProviderPeers()
				if len(pp) != 1 || peer.ID(pp[0].GetId()) != w.Self {
					x.Failf("C06/provider-payload", "ADD_PROVIDER to %s names %d providers (want exactly self)", w.Name(e.To), len(pp))
					return
				}
				got := pp[0].Addresses()
				if len(got) == 0 {
					x.Failf("C06/provider-without-address", "ADD_PROVIDER to %s carries no address", w.Name(e.To))
					return
				}
				if fmt.Sprint(got) != fmt.Sprint(wantAddrs) {
					x.Failf("C06/provider-addresses", "ADD_PROVIDER to %s carries %v, the filtered host addresses are %v", w.Name(e.To), got, wantAddrs)
					return
				}
				if !bytes.Equal(e.Msg.GetKey(), mh) {
					x.Failf("C06/provider-key", "ADD_PROVIDER with wrong key")
					return
				}
			}
		}
	}
	for _, e := range l.net.Log {
		if e.What == "abandon" && (e.Kind == "req" || e.Kind == "msg") {
			// which message was abandoned
			for _, f := range l.net.Log {
				if f.Seq == e.Seq && (f.What == "req" || f.What == "msg") && f.Type == msgType {
					abandoned[f.To] = true
				}
			}
		}
	}
	for p := range abandoned {
		x.Failf("C06/message-cancelled", "the %s to %s was cancelled before the peer could answer although the caller never cancelled and no timeout elapsed", msgType, w.Name(p))
		return
	}
	for p, n := range sentTo {
		if n > 1 {
			x.Failf("C06/sent-twice", "%s received %d %s messages", w.Name(p), n, msgType)
			return
		}
	}
	var sentNames []string
	for p := range sentTo {
		sentNames = append(sentNames, w.Name(p))
	}
	sort.Strings(sentNames)
	switch c.op {
	case "putvalue", "provide":
		if opErr != nil {
			x.Failf("C06/error", "%s returned %v", c.op, opErr)
			return
		}
		want := w.Names(cand)
		sort.Strings(want)
		if c.op == "provide" && len(wantAddrs) == 0 {
			want = nil
		}
		if fmt.Sprint(sentNames) != fmt.Sprint(want) {
			x.Failf("C06/recipients", "%s was sent to %v, the lookup returned %v", msgType, sentNames, want)
			return
		}
	case "optprovide":
		for _, p := range cand {
			if sentTo[p] != 1 && len(wantAddrs) > 0 {
				x.Failf("C06/closest-peer-skipped", "optimistic provide did not send ADD_PROVIDER to %s, one of the closest peers %v (sent to %v)", w.Name(p), w.Names(cand), sentNames)
				return
			}
		}
	case "corrective":
		// the search completed (quorum 0): peers among the closest that did not return the best value get it
		if len(emitted) == 0 {
			if len(sentTo) != 0 {
				x.Failf("C06/corrective-without-value", "no value found but PUT_VALUE sent to %v", sentNames)
			}
			break
		}
		final := emitted[len(emitted)-1]
		var want []string
		for i, id := range ids {
			isClosest := false
			for _, q := range cand {
				if q == id {
					isClosest = true
				}
			}
			if !isClosest {
				continue
			}
			returnedFinal := false
			switch c.recs[i] {
			case "best":
				returnedFinal = bytes.Equal(final, best)
			case "older":
				returnedFinal = bytes.Equal(final, sim.Val(2, "older"))
			case "oldest":
				returnedFinal = bytes.Equal(final, sim.Val(1, "oldest"))
			}
			if !returnedFinal {
				want = append(want, w.Name(id))
			}
		}
		sort.Strings(want)
		if fmt.Sprint(sentNames) != fmt.Sprint(want) {
			x.Failf("C06/corrective-recipients", "corrective PUT_VALUE sent to %v; closest peers that did not return the best value: %v (records %v)", sentNames, want, c.recs)
			return
		}
	}
	x.Obs("%s sent to %v", c.op, sentNames)
	x.Outcome("%s:%v", c.op, sentNames)
}
