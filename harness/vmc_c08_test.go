//go:build verif

package dht

import (
	"context"
	"fmt"
	"sort"
	"strings"
	"testing"

	"github.com/ipfs/go-cid"
	"github.com/libp2p/go-libp2p/core/peer"
	ma "github.com/multiformats/go-multiaddr"

	"github.com/libp2p/go-libp2p-kad-dht/internal/vmc"
	"github.com/libp2p/go-libp2p-kad-dht/internal/vmc/kid"
	"github.com/libp2p/go-libp2p-kad-dht/internal/vmc/sim"
	pb "github.com/libp2p/go-libp2p-kad-dht/pb"
)

// C08: FindProvidersAsync yields only reported providers, bounded by count.

type c08cfg struct {
	lists   []int // per responder: index into c08Lists
	local   int   // index into c08Locals
	count   int
	a       int
	shuffle string // "identity", "reverse", "choose"
	instant bool   // responders answer the moment they are asked
}

// provider universe: X, Y, Z; "+a" = with an address
var c08Lists = [][]string{{}, {"X+a"}, {"X"}, {"X+a", "Y"}, {"Y", "Z+a"}, {"X", "Y+a", "Z"}}
var c08Locals = [][]string{{}, {"X+a"}, {"Y"}}

func c08Configs(tier string) []vmc.Cfg {
	var out []vmc.Cfg
	n := 3
	total := 1
	for i := 0; i < n; i++ {
		total *= len(c08Lists)
	}
	shuffles := []string{"identity", "reverse"}
	alphas := []int{3}
	if tier == "thorough" {
		shuffles = []string{"choose"}
		alphas = []int{3, 1, 2}
	}
	for m := 0; m < total; m++ {
		lists := make([]int, n)
		mm := m
		for i := range lists {
			lists[i] = mm % len(c08Lists)
			mm /= len(c08Lists)
		}
		for local := range c08Locals {
			for count := 0; count <= 3; count++ {
				for _, a := range alphas {
					for _, sh := range shuffles {
						if tier != "thorough" && sh == "reverse" && local != 0 {
							continue
						}
						c := c08cfg{lists: lists, local: local, count: count, a: a, shuffle: sh}
						out = append(out, vmc.Cfg{Name: fmt.Sprintf("a%d/count%d/local%d/%s/lists%v", a, count, local, sh, lists), Data: c})
						if a == 3 && sh != "choose" {
							ci := c
							ci.instant = true
							out = append(out, vmc.Cfg{Name: fmt.Sprintf("a%d/count%d/local%d/%s/lists%v/instant", a, count, local, sh, lists), Data: ci})
						}
					}
				}
			}
		}
	}
	return out
}

func TestVMC_C08(t *testing.T) {
	vmc.Main(t, vmc.Harness{ID: "C08", Configs: c08Configs, Run: c08Run, Bubble: true})
}

func c08Run(x *vmc.X, cfg vmc.Cfg) {
	c := cfg.Data.(c08cfg)
	cc := c01cfg{n: len(c.lists), k: 3, a: c.a, b: 3, knowledge: "full"}
	cc.behaviours = make([]string, cc.n)
	for i := range cc.behaviours {
		cc.behaviours[i] = sim.BHonest
	}
	w, ids := c01World(cc)
	mh := kid.Mh("000", 0)
	pcid := cid.NewCidV1(cid.Raw, mh)
	prov := map[string]peer.ID{"X": kid.Peer("101", 5), "Y": kid.Peer("101", 6), "Z": kid.Peer("101", 7)}
	pname := func(id peer.ID) string {
		for n, p := range prov {
			if p == id {
				return n
			}
		}
		return w.Name(id)
	}
	addr := ma.StringCast("/ip4/7.7.7.7/tcp/4001")
	mk := func(spec []string) []peer.AddrInfo {
		var out []peer.AddrInfo
		for _, s := range spec {
			ai := peer.AddrInfo{ID: prov[s[:1]]}
			if strings.HasSuffix(s, "+a") {
				ai.Addrs = []ma.Multiaddr{addr}
			}
			out = append(out, ai)
		}
		return out
	}
	for i, id := range ids {
		if l := c08Lists[c.lists[i]]; len(l) > 0 {
			w.Peers[id].Providers[string(mh)] = mk(l)
		}
	}
	l, err := newLH(x, w, lhParams{k: 3, alpha: c.a, beta: 3})
	if err != nil {
		x.Failf("C08/setup", "%v", err)
		return
	}
	defer l.close()
	l.seed(ids)
	l.net.Instant = c.instant
	switch c.shuffle {
	case "reverse":
		l.d.shuffle = func(n int, swap func(i, j int)) {
			for i, j := 0, n-1; i < j; i, j = i+1, j-1 {
				swap(i, j)
			}
		}
	case "choose":
		l.d.shuffle = func(n int, swap func(i, j int)) {
			// Fisher-Yates driven by the explorer: every permutation is reachable
			for i := n - 1; i > 0; i-- {
				j := x.Choose(i+1, vmc.Free, fmt.Sprintf("shuffle[%d]", i))
				swap(i, i-j)
			}
		}
	}
	local := map[peer.ID]bool{}
	for _, ai := range mk(c08Locals[c.local]) {
		if err := l.d.providerStore.AddProvider(l.ctx, mh, ai); err != nil {
			x.Failf("C08/setup", "%v", err)
			return
		}
		local[ai.ID] = true
	}
	ctx, cancel := context.WithCancel(l.ctx)
	defer cancel()
	type yielded struct {
		id    peer.ID
		addrs int
	}
	var got []yielded
	done := make(chan struct{})
	ch := l.d.FindProvidersAsync(ctx, pcid, c.count)
	go func() {
		for ai := range ch {
			got = append(got, yielded{ai.ID, len(ai.Addrs)})
		}
		close(done)
	}()
	closed := false
	nChecked := 0
	reachedAt := -1
	reqsAtReach := 0
	countReqs := func() int {
		n := 0
		for _, e := range l.net.Log {
			if e.What == "req" && e.Type == pb.Message_GET_PROVIDERS {
				n++
			}
		}
		return n
	}
	named := func() map[peer.ID]bool {
		m := map[peer.ID]bool{}
		for _, e := range l.net.Log {
			if e.What == "deliver" && e.Kind == "req" && e.Err == "" && e.Resp != nil {
				for _, pp := range e.Resp.GetProviderPeers() {
					m[peer.ID(pp.GetId())] = true
				}
			}
		}
		return m
	}
	l.onStep = func() bool {
		nm := named()
		for ; nChecked < len(got); nChecked++ {
			y := got[nChecked]
			if !local[y.id] && !nm[y.id] {
				x.Failf("C08/unreported-provider", "%s was yielded but is neither stored locally nor named in a delivered answer", pname(y.id))
				return false
			}
			for _, prev := range got[:nChecked] {
				if prev.id == y.id && !(prev.addrs == 0 && y.addrs > 0) {
					x.Failf("C08/repeated", "%s was yielded again (first with %d addresses, now with %d)", pname(y.id), prev.addrs, y.addrs)
					return false
				}
			}
		}
		distinct := map[peer.ID]bool{}
		for _, y := range got {
			distinct[y.id] = true
		}
		if c.count > 0 && len(distinct) > c.count {
			x.Failf("C08/more-than-count", "%d distinct providers yielded, count=%d", len(distinct), c.count)
			return false
		}
		if c.count > 0 && len(distinct) == c.count && reachedAt < 0 {
			reachedAt = l.step
			reqsAtReach = countReqs()
		}
		if reachedAt >= 0 && countReqs() > reqsAtReach {
			x.Failf("C08/asks-after-count-reached", "count=%d was reached at delivery %d but %d further GET_PROVIDERS request(s) were sent", c.count, reachedAt, countReqs()-reqsAtReach)
			return false
		}
		if !closed {
			select {
			case <-done:
				closed = true
			default:
			}
		}
		return true
	}
	l.stateKey = func() string {
		var g []string
		for _, y := range got {
			g = append(g, fmt.Sprintf("%s/%d", pname(y.id), y.addrs))
		}
		return fmt.Sprintf("%s|got:%v|closed:%v", l.deliveredKey(), g, closed)
	}
	if !l.runToCompletion("C08", func() bool { return closed && len(l.net.PendingEvents()) == 0 }, 100) {
		return
	}
	if c.count == 0 {
		// every provider named in a processed answer (the lookup ran to completion) or stored locally is yielded
		have := map[peer.ID]bool{}
		for _, y := range got {
			have[y.id] = true
		}
		for id := range named() {
			if !have[id] {
				x.Failf("C08/provider-missing", "count=0: %s was named in a processed answer but never yielded", pname(id))
				return
			}
		}
		for id := range local {
			if !have[id] {
				x.Failf("C08/local-provider-missing", "count=0: locally stored provider %s never yielded", pname(id))
				return
			}
		}
	}
	var names []string
	for _, y := range got {
		names = append(names, fmt.Sprintf("%s/%d", pname(y.id), y.addrs))
	}
	sort.Strings(names)
	x.Obs("yielded %v", names)
	x.Outcome("%v", names)
}
