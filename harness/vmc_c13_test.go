//go:build verif

package dht

import (
	"fmt"
	"testing"
	"testing/synctest"

	"github.com/libp2p/go-libp2p/core/event"
	"github.com/libp2p/go-libp2p/core/network"
	"github.com/libp2p/go-libp2p/core/protocol"
	"google.golang.org/protobuf/proto"

	"github.com/libp2p/go-libp2p-kad-dht/internal/vmc"
	"github.com/libp2p/go-libp2p-kad-dht/internal/vmc/kid"
	"github.com/libp2p/go-libp2p-kad-dht/internal/vmc/sim"
	pb "github.com/libp2p/go-libp2p-kad-dht/pb"
)

// C13: client-mode nodes never serve; auto modes follow reachability.

type c13cfg struct {
	part    string // "hist" or "race"
	mode    ModeOpt
	race    string
	dialled bool // the requesting peer's connection was dialled by the node (inbound stream on an outbound connection)
	second  bool // the node serves a second (older) protocol id as well; inbound streams are opened on both
}

func c13Configs(tier string) []vmc.Cfg {
	var out []vmc.Cfg
	names := map[ModeOpt]string{ModeAuto: "auto", ModeClient: "client", ModeServer: "server", ModeAutoServer: "auto-server"}
	for _, m := range []ModeOpt{ModeAuto, ModeClient, ModeServer, ModeAutoServer} {
		out = append(out, vmc.Cfg{Name: "hist/" + names[m], Data: c13cfg{part: "hist", mode: m}})
		out = append(out, vmc.Cfg{Name: "hist/" + names[m] + "/dialled-conn", Data: c13cfg{part: "hist", mode: m, dialled: true}})
		out = append(out, vmc.Cfg{Name: "hist/" + names[m] + "/two-server-protocols", Data: c13cfg{part: "hist", mode: m, second: true}})
	}
	b := 3
	if tier == "thorough" {
		b = 100
	}
	for _, m := range []ModeOpt{ModeAutoServer, ModeAuto} {
		for _, r := range []string{"to-client", "to-client-then-server"} {
			out = append(out, vmc.Cfg{Name: "race/" + names[m] + "/" + r, Budget: b, Data: c13cfg{part: "race", mode: m, race: r}})
			out = append(out, vmc.Cfg{Name: "race/" + names[m] + "/" + r + "/dialled-conn", Budget: b, Data: c13cfg{part: "race", mode: m, race: r, dialled: true}})
		}
	}
	return out
}

func TestVMC_C13(t *testing.T) {
	vmc.Main(t, vmc.Harness{ID: "C13", Configs: c13Configs, Run: c13Run, Bubble: true, ShardSubtree: true})
}

func c13Expected(opt ModeOpt, last network.Reachability, any bool) mode {
	switch opt {
	case ModeClient:
		return modeClient
	case ModeServer:
		return modeServer
	}
	if !any {
		if opt == ModeAutoServer {
			return modeServer
		}
		return modeClient
	}
	switch last {
	case network.ReachabilityPublic:
		return modeServer
	case network.ReachabilityPrivate:
		return modeClient
	}
	if opt == ModeAutoServer {
		return modeServer
	}
	return modeClient
}

func findNodeFrame(target []byte) []byte {
	b, _ := proto.Marshal(pb.NewMessage(pb.Message_FIND_NODE, target, 0))
	return frame(b)
}

func c13Run(x *vmc.X, cfg vmc.Cfg) {
	c := cfg.Data.(c13cfg)
	w := sim.NewWorld(lhSelf, 3)
	l, err := newLH(x, w, lhParams{k: 3, alpha: 2, beta: 1, mode: c.mode, modeSet: true})
	if err != nil {
		x.Failf("C13/setup", "%v", err)
		return
	}
	defer l.close()
	const c13Proto2 = protocol.ID("/sim/kad/0.9.0")
	if c.second {
		// (in-package: the option that adds older protocol ids is not exported for custom prefixes)
		l.d.serverProtocols = append(l.d.serverProtocols, c13Proto2)
		if l.d.getMode() == modeServer {
			l.h.SetStreamHandler(c13Proto2, l.d.handleNewStream)
		}
	}
	a, b := kid.Peer("000", 1), kid.Peer("111", 1)
	var connA *sim.Conn
	if c.dialled {
		connA = l.h.AddConn(a, network.DirOutbound, nil)
		l.h.AddConn(b, network.DirOutbound, nil)
	}
	check := func(where string, want mode) bool {
		got := l.d.getMode()
		reg := l.h.Handler(c09Proto) != nil
		if c.second && reg != (l.h.Handler(c13Proto2) != nil) {
			x.Failf("C13/handler-registration", "%s: the two server protocols are not registered alike (mode %d)", where, got)
			return false
		}
		if got != want {
			x.Failf("C13/mode", "%s: mode is %d, expected %d (option %d)", where, got, want, c.mode)
			return false
		}
		if reg != (want == modeServer) {
			x.Failf("C13/handler-registration", "%s: handler registered=%v in mode %d", where, reg, want)
			return false
		}
		return true
	}
	if c.part == "hist" {
		if !check("initially", c13Expected(c.mode, 0, false)) {
			return
		}
		// an inbound stream that has completed one exchange and an outbound stream stay open across events
		events := []network.Reachability{network.ReachabilityPublic, network.ReachabilityPrivate, network.ReachabilityUnknown}
		var inbound []*sim.Stream
		oc := l.h.AddConn(kid.Peer("101", 1), network.DirOutbound, nil)
		outLocal, _ := sim.NewStreamPair(oc, c09Proto, network.DirOutbound)
		// the connection that will carry the inbound streams also carries an outbound DHT stream of the node
		// itself, opened first (the demotion sweep meets it before the inbound ones)
		if connA == nil {
			connA = l.h.AddConn(a, network.DirInbound, nil)
		}
		outSame, _ := sim.NewStreamPair(connA, c09Proto, network.DirOutbound)
		for step := 0; step < 4; step++ {
			i := x.Choose(len(events)+2, vmc.Free, "event")
			if i == len(events)+1 {
				break
			}
			if i == len(events) {
				// open an inbound stream and do one exchange
				s := l.h.Inbound(a, c09Proto)
				x.Obs("open-stream handled=%v", s != nil)
				if s != nil {
					_, _ = s.Write(findNodeFrame([]byte(a)))
					synctest.Wait()
					if l.d.getMode() == modeServer && len(s.Buffered()) == 0 {
						x.Failf("C13/server-does-not-answer", "server mode: no reply to FIND_NODE on a new stream")
						return
					}
					inbound = append(inbound, s)
					if c.second {
						if s2 := l.h.Inbound(a, c13Proto2); s2 != nil {
							_, _ = s2.Write(findNodeFrame([]byte(a)))
							synctest.Wait()
							inbound = append(inbound, s2)
						} else {
							x.Failf("C13/server-without-handler", "server mode but no handler for the second server protocol")
							return
						}
					}
				} else if l.d.getMode() == modeServer {
					x.Failf("C13/server-without-handler", "server mode but no handler")
					return
				}
				continue
			}
			x.Obs("reachability=%v", events[i])
			before := l.d.getMode()
			l.h.Emit(event.EvtLocalReachabilityChanged{Reachability: events[i]})
			synctest.Wait()
			want := c13Expected(c.mode, events[i], true)
			if !check(fmt.Sprintf("after %v", events[i]), want) {
				return
			}
			if before == modeServer && want == modeClient {
				for _, s := range inbound {
					if !s.IsReset() && !s.RemoteClosedWrite() {
						x.Failf("C13/inbound-stream-survives-switch", "an inbound DHT stream opened in server mode is still open after the switch to client mode")
						return
					}
				}
				inbound = nil
			}
			if outLocal.IsReset() || outSame.IsReset() {
				x.Failf("C13/outbound-stream-reset", "an outbound stream was reset by a mode switch")
				return
			}
			// requests on streams that are still open must be refused in client mode
			for _, s := range inbound {
				if want == modeClient && !s.IsReset() {
					n := len(s.Buffered())
					_, _ = s.Write(findNodeFrame([]byte(a)))
					synctest.Wait()
					if len(s.Buffered()) > n {
						x.Failf("C13/client-answers-on-open-stream", "client mode: a request on an already open stream was answered")
						return
					}
				}
			}
		}
		x.Outcome("mode=%d", l.d.getMode())
		return
	}

	// ---- race part (E2) -------------------------------------------------------------------------
	// an old inbound stream with one completed exchange
	old := l.h.Inbound(a, c09Proto)
	if old == nil {
		if c.mode == ModeAuto {
			// ModeAuto starts as client: make it a server first
			l.h.Emit(event.EvtLocalReachabilityChanged{Reachability: network.ReachabilityPublic})
			synctest.Wait()
			old = l.h.Inbound(a, c09Proto)
		}
		if old == nil {
			x.Failf("C13/setup", "no handler in server mode")
			return
		}
	}
	_, _ = old.Write(findNodeFrame([]byte(a)))
	synctest.Wait()
	oldReplied := len(old.Buffered())
	if oldReplied == 0 {
		x.Failf("C13/setup", "no reply on the first exchange")
		return
	}
	sched := vmc.NewSched(x)
	l.h.Point = func(label string) { sched.Point(label) }
	defer func() { l.h.Point = nil }()
	type req struct {
		name        string
		s           *sim.Stream
		modeAtWrite mode
		before      int
		refused     bool
	}
	var reqs []*req
	sched.Go("events", func() {
		l.h.Emit(event.EvtLocalReachabilityChanged{Reachability: network.ReachabilityPrivate})
		if c.race == "to-client-then-server" {
			sched.Point("next-event")
			l.h.Emit(event.EvtLocalReachabilityChanged{Reachability: network.ReachabilityPublic})
		}
	})
	rOld := &req{name: "old-stream", s: old, before: oldReplied}
	rNew := &req{name: "new-stream"}
	reqs = append(reqs, rOld, rNew)
	sched.Go("req-old", func() {
		rOld.modeAtWrite = l.d.getMode()
		_, _ = old.Write(findNodeFrame([]byte(a)))
	})
	sched.Go("req-new", func() {
		s := l.h.Inbound(b, c09Proto)
		if s == nil {
			rNew.refused = true
			return
		}
		rNew.s = s
		rNew.modeAtWrite = l.d.getMode()
		_, _ = s.Write(findNodeFrame([]byte(b)))
	})
	for steps := 0; steps < 300; steps++ {
		synctest.Wait()
		if len(sched.Parked()) == 0 {
			break
		}
		if !sched.Step(nil) {
			break
		}
	}
	synctest.Wait()
	if !sched.AllDone() {
		x.Failf("C13/deadlock", "threads %v cannot finish (parked %v)", sched.Unfinished(), sched.Parked())
		sched.Finish()
		return
	}
	sched.Finish()
	l.h.Point = nil
	synctest.Wait()
	final := l.d.getMode()
	wantFinal := modeClient
	if c.race == "to-client-then-server" {
		wantFinal = modeServer
	}
	if !check("after the events", wantFinal) {
		return
	}
	res := ""
	for _, r := range reqs {
		if r.s == nil {
			res += r.name + ":no-handler "
			continue
		}
		answered := len(r.s.Buffered()) > r.before
		if r.modeAtWrite == modeClient && final == modeClient && answered {
			x.Failf("C13/client-answered", "%s: the request was written while the node was already in client mode and was answered", r.name)
			return
		}
		if final == modeClient && !r.s.IsReset() && !r.s.RemoteClosedWrite() {
			x.Failf("C13/inbound-stream-open-in-client-mode", "%s: an inbound DHT stream is still open although the node ended in client mode (answered=%v)", r.name, answered)
			return
		}
		res += fmt.Sprintf("%s:answered=%v,reset=%v ", r.name, answered, r.s.IsReset())
	}
	x.Obs("%s", res)
	x.Outcome("%s", res)
}
