//go:build verif

// Package kid produces peer ids and multihashes whose Kademlia identifier (SHA-256 of the
// id bytes) starts with chosen bits. Found by deterministic brute force, cached per process.
package kid

import (
	"crypto/sha256"
	"fmt"
	"sync"

	"github.com/libp2p/go-libp2p/core/peer"
	mh "github.com/multiformats/go-multihash"
)

var (
	mu     sync.Mutex
	mhTab  = map[string][]mh.Multihash{}
	mhNext = map[int]int{} // per prefix length: next counter
	prTab  = map[string][]peer.ID{}
	prNext = map[int]int{}
)

// BitsOf returns the first n bits of SHA-256(b) as a string of '0'/'1'.
func BitsOf(b []byte, n int) string {
	h := sha256.Sum256(b)
	return BitsRaw(h[:], n)
}

// BitsRaw returns the first n bits of b.
func BitsRaw(b []byte, n int) string {
	out := make([]byte, n)
	for i := 0; i < n; i++ {
		if b[i/8]&(0x80>>(uint(i)%8)) != 0 {
			out[i] = '1'
		} else {
			out[i] = '0'
		}
	}
	return string(out)
}

func rawMh(tag string, c int) mh.Multihash {
	d := sha256.Sum256([]byte(fmt.Sprintf("%s-%d", tag, c)))
	b := make([]byte, 0, 34)
	b = append(b, 0x12, 0x20)
	b = append(b, d[:]...)
	return mh.Multihash(b)
}

// Mh returns the idx-th multihash (in a fixed enumeration) whose kad id starts with prefix.
func Mh(prefix string, idx int) mh.Multihash {
	mu.Lock()
	defer mu.Unlock()
	L := len(prefix)
	key := fmt.Sprintf("%d/%s", L, prefix)
	for len(mhTab[key]) <= idx {
		c := mhNext[L]
		mhNext[L] = c + 1
		m := rawMh("vmc-mh", c)
		k := fmt.Sprintf("%d/%s", L, BitsOf(m, L))
		mhTab[k] = append(mhTab[k], m)
	}
	return mhTab[key][idx]
}

// Peer returns the idx-th peer id whose kad id starts with prefix. The ids are SHA-256
// multihashes (like RSA peer ids: the public key is not inlined).
func Peer(prefix string, idx int) peer.ID {
	mu.Lock()
	defer mu.Unlock()
	L := len(prefix)
	key := fmt.Sprintf("%d/%s", L, prefix)
	for len(prTab[key]) <= idx {
		c := prNext[L]
		prNext[L] = c + 1
		p := peer.ID(rawMh("vmc-peer", c))
		k := fmt.Sprintf("%d/%s", L, BitsOf([]byte(p), L))
		prTab[k] = append(prTab[k], p)
	}
	return prTab[key][idx]
}

// KeyWithPrefix returns the idx-th string key "/<ns>/<n>" whose kad id (SHA-256 of the
// whole key string) starts with prefix.
func KeyWithPrefix(ns, prefix string, idx int) string {
	found := 0
	for c := 0; ; c++ {
		k := fmt.Sprintf("/%s/k%d", ns, c)
		if BitsOf([]byte(k), len(prefix)) == prefix {
			if found == idx {
				return k
			}
			found++
		}
	}
}

// Xor compares distance(a,key) with distance(b,key) on kad ids (SHA-256 of the raw bytes).
// It returns -1 if a is nearer, +1 if b is nearer, 0 if equal.
func Xor(a, b, key []byte) int {
	ha, hb, hk := sha256.Sum256(a), sha256.Sum256(b), sha256.Sum256(key)
	for i := 0; i < 32; i++ {
		da, db := ha[i]^hk[i], hb[i]^hk[i]
		if da < db {
			return -1
		}
		if da > db {
			return 1
		}
	}
	return 0
}
