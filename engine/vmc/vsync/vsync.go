//go:build verif

// Package vsync is a drop-in subset of package sync whose Mutex/RWMutex are channel based, so
// that a goroutine waiting for a lock is *durably blocked* in the sense of testing/synctest
// (a goroutine blocked in sync.Mutex.Lock is not, and would hang synctest.Wait and virtual
// time whenever the holder is parked by the explorer). It is substituted by an import rewrite
// in a short list of repository files (see bin/check SYNC_REWRITE). WaitGroup is a contract-checking
// re-implementation (waitgroup.go). Everything else aliases the real package.
package vsync

import (
	"sync"
	"sync/atomic"
)

type (
	Once      = sync.Once
	Pool      = sync.Pool
	Map       = sync.Map
	Cond      = sync.Cond
	Locker    = sync.Locker
)

func NewCond(l Locker) *Cond               { return sync.NewCond(l) }
func OnceFunc(f func()) func()             { return sync.OnceFunc(f) }
func OnceValue[T any](f func() T) func() T { return sync.OnceValue(f) }
func OnceValues[T1, T2 any](f func() (T1, T2)) func() (T1, T2) {
	return sync.OnceValues(f)
}

// Hook, when non-nil, is called before every Lock/RLock (op "lock"/"rlock") and after every
// Unlock/RUnlock (op "unlock"/"runlock") with the address of the mutex. Used for lock-level
// scheduling points. It must only be set while no shimmed lock is in use.
var Hook func(addr any, op string)

// Mutex is a mutual exclusion lock built on a 1-slot channel, created on first use.
type Mutex struct {
	ch atomic.Pointer[chan struct{}]
}

func (m *Mutex) c() chan struct{} {
	if p := m.ch.Load(); p != nil {
		return *p
	}
	c := make(chan struct{}, 1)
	if m.ch.CompareAndSwap(nil, &c) {
		return c
	}
	return *m.ch.Load()
}

func (m *Mutex) Lock() {
	if h := Hook; h != nil {
		h(m, "lock")
	}
	m.c() <- struct{}{}
}

func (m *Mutex) TryLock() bool {
	select {
	case m.c() <- struct{}{}:
		return true
	default:
		return false
	}
}

func (m *Mutex) Unlock() {
	select {
	case <-m.c():
	default:
		panic("vsync: unlock of unlocked mutex")
	}
	if h := Hook; h != nil {
		h(m, "unlock")
	}
}

// RWMutex is conservatively exclusive: readers exclude each other. This can only remove
// reader/reader concurrency; it must not be used where one goroutine takes the same lock for
// reading recursively.
type RWMutex struct {
	m Mutex
}

func (rw *RWMutex) Lock() {
	if h := Hook; h != nil {
		h(rw, "lock")
	}
	rw.m.c() <- struct{}{}
}
func (rw *RWMutex) Unlock() {
	select {
	case <-rw.m.c():
	default:
		panic("vsync: unlock of unlocked rwmutex")
	}
	if h := Hook; h != nil {
		h(rw, "unlock")
	}
}
func (rw *RWMutex) RLock() {
	if h := Hook; h != nil {
		h(rw, "rlock")
	}
	rw.m.c() <- struct{}{}
}
func (rw *RWMutex) RUnlock() {
	select {
	case <-rw.m.c():
	default:
		panic("vsync: runlock of unlocked rwmutex")
	}
	if h := Hook; h != nil {
		h(rw, "runlock")
	}
}
func (rw *RWMutex) TryLock() bool   { return rw.m.TryLock() }
func (rw *RWMutex) TryRLock() bool  { return rw.m.TryLock() }
func (rw *RWMutex) RLocker() Locker { return (*rlocker)(rw) }

type rlocker RWMutex

func (r *rlocker) Lock()   { (*RWMutex)(r).RLock() }
func (r *rlocker) Unlock() { (*RWMutex)(r).RUnlock() }
