//go:build verif

package vsync

import (
	"sync"
)

// WaitGroup is a sync.WaitGroup whose waiting is durably blocking for synctest and which
// *checks the documented contract*: "calls with a positive delta that occur when the counter is
// zero must happen before a Wait ... new Add calls must happen after all previous Wait calls have
// returned". The real WaitGroup panics ("WaitGroup is reused before previous Wait has returned")
// only if the offending Add falls into the window between the waiter's wake-up and its return;
// here that window is a scheduling point (Hook op "wg-wake") and an Add that falls into it panics
// deterministically.
type WaitGroup struct {
	mu      sync.Mutex // real mutex, never held across a blocking operation
	n       int
	waiters int // Wait calls that were woken or are waiting and have not returned
	ch      chan struct{}
}

func (wg *WaitGroup) Add(delta int) {
	wg.mu.Lock()
	if delta > 0 && wg.n == 0 && wg.waiters > 0 {
		wg.mu.Unlock()
		panic("sync: WaitGroup is reused before previous Wait has returned (vsync contract check: Add with a zero counter while a Wait has not returned)")
	}
	wg.n += delta
	if wg.n < 0 {
		wg.mu.Unlock()
		panic("sync: negative WaitGroup counter")
	}
	if wg.n == 0 && wg.ch != nil {
		close(wg.ch)
		wg.ch = nil
	}
	wg.mu.Unlock()
}

func (wg *WaitGroup) Done() { wg.Add(-1) }

func (wg *WaitGroup) Wait() {
	wg.mu.Lock()
	if wg.n == 0 {
		wg.mu.Unlock()
		return
	}
	if wg.ch == nil {
		wg.ch = make(chan struct{})
	}
	ch := wg.ch
	wg.waiters++
	wg.mu.Unlock()
	<-ch
	if h := Hook; h != nil {
		h(wg, "wg-wake")
	}
	wg.mu.Lock()
	wg.waiters--
	wg.mu.Unlock()
}

func (wg *WaitGroup) Go(f func()) {
	wg.Add(1)
	go func() {
		defer wg.Done()
		f()
	}()
}
