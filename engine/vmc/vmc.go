//go:build verif

// Package vmc is the exploration engine of /verif: a choice recorder with a
// deviation-bounded depth-first explorer (E1), optional canonical-state pruning
// (E4), sharding across worker processes, replay, and result reporting.
//
// It is injected into the module under test as a virtual package through
// `go test -overlay`; nothing of it lives in /repo.
package vmc

import (
	"encoding/json"
	mrand "math/rand"
	"fmt"
	"hash/fnv"
	"os"
	"runtime/debug"
	"sort"
	"strconv"
	"strings"
	"testing"
	"testing/synctest"
	"time"
)

// Kind of a choice point; decides what an alternative costs.
type Kind int

const (
	// Order: which of several pending events happens next. Every alternative is free.
	Order Kind = iota
	// Env: alternative 0 is the default environment answer, every other costs one deviation.
	Env
	// Free is an alias of Order for program/alphabet choices.
	Free = Order
)

// Cfg is one configuration of a harness (a world, a parameter tuple ...).
type Cfg struct {
	Name   string
	Budget int // deviation budget for this configuration
	Data   any
}

// Harness describes one property check.
type Harness struct {
	ID string
	// Configs enumerates the configurations of a tier ("quick"/"thorough").
	Configs func(tier string) []Cfg
	// Run performs one execution. It must obtain every nondeterministic value from x.
	Run func(x *X, cfg Cfg)
	// Bubble: run every execution inside a testing/synctest bubble.
	Bubble bool
	// ShardSubtree: shard the level-2 subtrees of every configuration over the workers
	// (for harnesses with few, deep configurations). Default: shard configurations.
	ShardSubtree bool
	// NoStateFromObs: do not count observation prefixes as states (harness calls Seen itself).
	NoStateFromObs bool
}

type point struct {
	n     int
	label string
	costs []int // nil => all free
	devs  int   // deviations used before this point
}

// Failure is one oracle violation.
type Failure struct {
	Sig     string   `json:"sig"`
	Msg     string   `json:"msg"`
	Config  string   `json:"config"`
	CfgIdx  int      `json:"cfg_idx"`
	Choices []int    `json:"choices"`
	Labels  []string `json:"labels,omitempty"`
}

// X is one execution.
type X struct {
	e           *explorer
	cfgIdx      int
	prefix      []int
	expect      []point
	choices     []int
	points      []point
	devs        int
	obsHash     uint64
	obsLog      []string
	trace       bool
	fails       []Failure
	outcome     string
	pruned      bool
	depthOfSeen int
	T           *testing.T
	nondet      string
	seenLog     []bool // results of Seen calls past the prefix
	seenReplay  []bool // when non-nil: answers to give instead of consulting the visited set
	seenPos     int
}

type pruneSentinel struct{}

// Choose returns a value in [0,n). kind decides the cost of non-default alternatives.
func (x *X) Choose(n int, kind Kind, label string) int {
	if n <= 0 {
		panic("vmc: Choose with n<=0 at " + label)
	}
	var costs []int
	if kind == Env && n > 1 {
		costs = make([]int, n)
		for i := 1; i < n; i++ {
			costs[i] = 1
		}
	}
	return x.ChooseCost(n, label, costs)
}

// ChooseCost is Choose with an explicit deviation cost per alternative (nil = all free).
func (x *X) ChooseCost(n int, label string, costs []int) int {
	pos := len(x.choices)
	c := 0
	if x.e.freerun && n > 1 {
		c = mrand.Intn(n)
	}
	if pos < len(x.prefix) {
		c = x.prefix[pos]
		if pos < len(x.expect) {
			if x.expect[pos].n != n || x.expect[pos].label != label {
				x.nondet = fmt.Sprintf("replay divergence at point %d: expected (%d,%q) got (%d,%q)", pos, x.expect[pos].n, x.expect[pos].label, n, label)
				panic(nondetSentinel{x.nondet})
			}
		}
		if c >= n {
			x.nondet = fmt.Sprintf("replay choice out of range at point %d: %d >= %d (%q)", pos, c, n, label)
			panic(nondetSentinel{x.nondet})
		}
	}
	x.points = append(x.points, point{n: n, label: label, costs: costs, devs: x.devs})
	x.choices = append(x.choices, c)
	if costs != nil {
		x.devs += costs[c]
	}
	if n > x.e.maxEnabled {
		x.e.maxEnabled = n
	}
	if x.trace {
		x.obsLog = append(x.obsLog, fmt.Sprintf("  choose[%d] %s -> %d/%d", pos, label, c, n))
	}
	if len(x.choices) > x.e.maxPoints {
		panic(fmt.Sprintf("vmc: more than %d choice points in one execution (runaway harness?) last label %q", x.e.maxPoints, label))
	}
	return c
}

type nondetSentinel struct{ msg string }

// Devs is the number of deviations used so far.
func (x *X) Devs() int { return x.devs }

// Depth is the number of choice points consumed so far.
func (x *X) Depth() int { return len(x.choices) }

// Replaying reports whether the execution is still inside its replay prefix.
func (x *X) Replaying() bool { return len(x.choices) < len(x.prefix) }

// Obs records an observation: it is hashed into the execution's observation hash (used for
// replay determinism and state counting) and kept as text when tracing.
func (x *X) Obs(format string, args ...any) {
	s := fmt.Sprintf(format, args...)
	h := fnv.New64a()
	var b [8]byte
	for i := 0; i < 8; i++ {
		b[i] = byte(x.obsHash >> (8 * i))
	}
	h.Write(b[:])
	h.Write([]byte(s))
	x.obsHash = h.Sum64()
	if x.trace {
		x.obsLog = append(x.obsLog, s)
	}
	if !x.e.h.NoStateFromObs && !x.Replaying() {
		x.e.addState(x.obsHash)
	}
}

// Eval counts one evaluated input of an enumeration harness (level "exploration");
// nontrivial says whether the input is non-trivial by the harness's stated rule.
func (x *X) Eval(nontrivial bool) {
	Extra["evaluations"]++
	if nontrivial {
		Extra["nontrivial"]++
	}
}

// Tracing reports whether observation text is kept (replay / sample runs).
func (x *X) Tracing() bool { return x.trace }

// Failf records an oracle violation with a stable signature.
func (x *X) Failf(sig string, format string, args ...any) {
	msg := fmt.Sprintf(format, args...)
	if len(msg) > 4000 {
		msg = msg[:4000] + "..."
	}
	x.fails = append(x.fails, Failure{Sig: sig, Msg: msg})
	if x.trace {
		x.obsLog = append(x.obsLog, "FAIL "+sig+": "+msg)
	}
}

// Failed reports whether this execution has recorded a failure.
func (x *X) Failed() bool { return len(x.fails) > 0 }

// Outcome sets the execution's outcome label (for the distinct-outcomes statistic).
func (x *X) Outcome(format string, args ...any) { x.outcome = fmt.Sprintf(format, args...) }

// Seen implements canonical-state pruning (E4): it reports true if the state key was already
// reached with no more deviations and at no greater depth; the harness must then return.
// While replaying the prefix it always reports false.
func (x *X) Seen(key string) bool {
	if x.Replaying() || x.e.freerun {
		return false
	}
	if x.seenReplay != nil {
		r := false
		if x.seenPos < len(x.seenReplay) {
			r = x.seenReplay[x.seenPos]
		}
		x.seenPos++
		x.pruned = r
		return r
	}
	defer func() { x.seenLog = append(x.seenLog, x.pruned) }()
	if x.e.noPrune {
		x.e.addStateKey(key, x.devs, len(x.choices))
		return false
	}
	if x.e.addStateKey(key, x.devs, len(x.choices)) {
		return false
	}
	x.pruned = true
	return true
}

// ---------------------------------------------------------------------------------------------

type seenEntry struct{ devs, depth int }

type explorer struct {
	h              Harness
	t              *testing.T
	tier           string
	budget         int
	noPrune        bool
	freerun bool // advisory race pass: random choices, scheduler inactive, no pruning
	maxPoints      int
	deadline       time.Time
	timedOut       bool
	execs          int64
	transitions    int64
	pruned         int64
	maxEnabled     int
	maxDevs        int
	states         map[uint64]struct{}
	stateKeys      map[string][]seenEntry
	outcomes       map[string]int64
	failures       []Failure
	failSigs       map[string]int
	samples        []Sample
	inflight       *os.File
	shardI, shardN int
	subtreeCounter int
	replayChecks   int64
	cfgName        string
	nondet         []string
	sampleEvery    int64
}

// Sample is a fully written-out execution kept for the evidence file.
type Sample struct {
	Config  string   `json:"config"`
	Choices []int    `json:"choices"`
	Labels  []string `json:"labels"`
	Outcome string   `json:"outcome"`
	Obs     []string `json:"obs,omitempty"`
}

func (e *explorer) addState(h uint64) {
	if len(e.states) < 5_000_000 {
		e.states[h] = struct{}{}
	}
}

// addStateKey returns true if the key is new (or reached strictly better) and must be explored.
func (e *explorer) addStateKey(key string, devs, depth int) bool {
	es := e.stateKeys[key]
	for _, s := range es {
		if s.devs <= devs && s.depth <= depth {
			return false
		}
	}
	// drop dominated
	out := es[:0]
	for _, s := range es {
		if !(devs <= s.devs && depth <= s.depth) {
			out = append(out, s)
		}
	}
	e.stateKeys[key] = append(out, seenEntry{devs, depth})
	return true
}

func (e *explorer) writeInflight(cfgIdx int, prefix []int) {
	if e.inflight == nil {
		return
	}
	b := make([]byte, 0, 64+4*len(prefix))
	b = append(b, `{"cfg_idx":`...)
	b = strconv.AppendInt(b, int64(cfgIdx), 10)
	b = append(b, `,"config":`...)
	b = strconv.AppendQuote(b, e.cfgName)
	b = append(b, `,"choices":[`...)
	for i, c := range prefix {
		if i > 0 {
			b = append(b, ',')
		}
		b = strconv.AppendInt(b, int64(c), 10)
	}
	b = append(b, "]}\n"...)
	// pad so that a shorter record fully overwrites a longer one
	e.inflight.WriteAt(b, 0)
	e.inflight.Truncate(int64(len(b)))
}

// runOne performs one execution of cfg with the given prefix.
func (e *explorer) runOne(cfgIdx int, cfg Cfg, prefix []int, expect []point, trace bool) *X {
	return e.runOneSeen(cfgIdx, cfg, prefix, expect, trace, nil)
}

func (e *explorer) runOneSeen(cfgIdx int, cfg Cfg, prefix []int, expect []point, trace bool, seenReplay []bool) *X {
	x := &X{e: e, cfgIdx: cfgIdx, prefix: prefix, expect: expect, trace: trace, T: e.t, seenReplay: seenReplay}
	e.writeInflight(cfgIdx, prefix)
	// wall-clock watchdog (real timer, created outside the bubble): an execution that does not finish
	// (e.g. a goroutine blocked on a third-party sync.Mutex, which synctest cannot see through) kills
	// the worker with a full goroutine dump; the parent reports the in-flight schedule.
	wd := time.AfterFunc(time.Duration(envInt("VMC_EXEC_TIMEOUT_S", 100))*time.Second, func() {
		debug.SetTraceback("all")
		panic(fmt.Sprintf("vmc: execution exceeded the wall-clock watchdog (config %q prefix %v): hang outside synctest's view", cfg.Name, prefix))
	})
	defer wd.Stop()
	body := func() {
		defer func() {
			if r := recover(); r != nil {
				switch v := r.(type) {
				case pruneSentinel:
				case nondetSentinel:
					_ = v
				default:
					x.Failf("panic/"+firstLine(fmt.Sprint(r)), "panic in harness goroutine: %v\n%s", r, trimStack(debug.Stack()))
				}
			}
		}()
		e.h.Run(x, cfg)
	}
	if e.h.Bubble {
		func() {
			defer func() {
				if r := recover(); r != nil {
					// synctest deadlock errors surface here (in the goroutine that called synctest.Test)
					msg := fmt.Sprint(r)
					if strings.Contains(msg, "blocked goroutines remain") && x.Failed() {
						return // the harness already reported the leak with a precise signature
					}
					x.Failf("bubble/"+firstLine(msg), "synctest: %v", r)
				}
			}()
			synctest.Test(e.t, func(t *testing.T) {
				x.T = t
				body()
			})
		}()
	} else {
		body()
	}
	if x.nondet != "" {
		e.nondet = append(e.nondet, fmt.Sprintf("config %q prefix %v: %s", cfg.Name, prefix, x.nondet))
	}
	return x
}

func firstLine(s string) string {
	if i := strings.IndexByte(s, '\n'); i >= 0 {
		s = s[:i]
	}
	if len(s) > 120 {
		s = s[:120]
	}
	return s
}

func trimStack(b []byte) string {
	s := string(b)
	if len(s) > 3000 {
		s = s[:3000]
	}
	return s
}

func (e *explorer) account(cfg Cfg, x *X) {
	e.execs++
	if d := os.Getenv("VMC_DUMP"); d != "" && d == strconv.Itoa(x.cfgIdx) {
		var ls []string
		for i, p := range x.points {
			ls = append(ls, fmt.Sprintf("%d/%d:%s", x.choices[i], p.n, p.label))
		}
		fmt.Printf("DUMP %v pruned=%v %s\n", x.choices, x.pruned, strings.Join(ls, " ; "))
	}
	np := len(x.choices) - len(x.prefix)
	if len(x.prefix) > 0 {
		np++
	}
	if np < 0 {
		np = 0
	}
	e.transitions += int64(np)
	if x.pruned {
		e.pruned++
	}
	if x.devs > e.maxDevs {
		e.maxDevs = x.devs
	}
	oc := x.outcome
	if oc == "" && x.pruned {
		oc = "(pruned: state already explored)"
	}
	if oc == "" {
		oc = fmt.Sprintf("obs:%x", x.obsHash)
	}
	if len(e.outcomes) < 200000 {
		e.outcomes[oc]++
	}
	for _, f := range x.fails {
		f.Config = cfg.Name
		f.CfgIdx = x.cfgIdx
		f.Choices = append([]int(nil), x.choices...)
		for _, p := range x.points {
			f.Labels = append(f.Labels, p.label)
		}
		e.failSigs[f.Sig]++
		if e.failSigs[f.Sig] <= 3 && len(e.failures) < 300 {
			e.failures = append(e.failures, f)
		}
	}
}

func (e *explorer) checkDeterminism(cfgIdx int, cfg Cfg, x *X) {
	e.replayChecks++
	// same prefix as x (so that Seen calls fall on the same side of the replay boundary),
	// remaining choices are defaults in both runs; Seen answers are replayed from x.
	sr := x.seenLog
	if sr == nil {
		sr = []bool{}
	}
	y := e.runOneSeen(cfgIdx, cfg, x.prefix, x.expect, false, sr)
	differs := func() bool {
		return y.obsHash != x.obsHash || len(y.choices) != len(x.choices) || len(y.fails) != len(x.fails)
	}
	// a difference must persist: see the retry rule in explore
	for retry := 0; retry < 4 && (y.nondet != "" || differs()); retry++ {
		if y.nondet != "" {
			if n := len(e.nondet); n > 0 {
				e.nondet = e.nondet[:n-1]
			}
		}
		Count("determinism_recheck_retries", 1)
		y = e.runOneSeen(cfgIdx, cfg, x.prefix, x.expect, false, sr)
	}
	if y.nondet != "" {
		return
	}
	if differs() {
		e.nondet = append(e.nondet, fmt.Sprintf("config %q choices %v: re-execution differs (obs %x vs %x, points %d vs %d, fails %d vs %d)",
			cfg.Name, x.choices, x.obsHash, y.obsHash, len(x.choices), len(y.choices), len(x.fails), len(y.fails)))
	}
}

// explore runs prefix and then recursively every alternative within the budget.
// level is the tree depth of this execution (root = 0); used for subtree sharding.
func (e *explorer) explore(cfgIdx int, cfg Cfg, prefix []int, expect []point, level int, own bool) {
	if e.timedOut {
		return
	}
	if time.Now().After(e.deadline) {
		e.timedOut = true
		return
	}
	x := e.runOne(cfgIdx, cfg, prefix, expect, false)
	// A replay prefix that meets another menu is retried a few times before it is reported: where the
	// implementation itself resolves a select with two ready cases at random (DESIGN.md 0.3) the same
	// prefix can legitimately lead to another menu; a genuine harness nondeterminism persists and is
	// reported as before. Retries are counted (divergent_retries) and shown with the evidence.
	for retry := 0; x.nondet != "" && retry < 6; retry++ {
		if n := len(e.nondet); n > 0 {
			e.nondet = e.nondet[:n-1]
		}
		Count("divergent_retries", 1)
		x = e.runOne(cfgIdx, cfg, prefix, expect, false)
	}
	if x.nondet != "" {
		return
	}
	if own {
		e.account(cfg, x)
		if e.execs == 1 || e.execs%e.sampleEvery == 0 || x.Failed() {
			e.checkDeterminism(cfgIdx, cfg, x)
		}
		if len(e.samples) < 4 && (e.execs == 1 || e.execs == 17 || e.execs == 301 || e.execs == 5003) {
			e.addSample(cfgIdx, cfg, x.choices)
		}
	}
	if len(e.failSigs) > 0 && e.totalFails() > 500 {
		return
	}
	for i := len(prefix); i < len(x.points); i++ {
		p := x.points[i]
		for alt := 1; alt < p.n; alt++ {
			cost := 0
			if p.costs != nil {
				cost = p.costs[alt]
			}
			if p.devs+cost > e.budget {
				continue
			}
			child := make([]int, i+1)
			copy(child, x.choices[:i])
			child[i] = alt
			childOwn := own
			if e.h.ShardSubtree && e.shardN > 1 {
				// levels 0 and 1 are executed by every worker but owned by worker 0;
				// level-2 subtrees are dealt round-robin.
				if level+1 < 2 {
					childOwn = e.shardI == 0
				} else if level+1 == 2 {
					mine := e.subtreeCounter%e.shardN == e.shardI
					e.subtreeCounter++
					if !mine {
						continue
					}
					childOwn = true
				}
			}
			e.explore(cfgIdx, cfg, child, x.points[:i+1], level+1, childOwn)
			if e.timedOut {
				return
			}
		}
	}
}

func (e *explorer) totalFails() int {
	n := 0
	for _, c := range e.failSigs {
		n += c
	}
	return n
}

func (e *explorer) addSample(cfgIdx int, cfg Cfg, choices []int) {
	y := e.runOneSeen(cfgIdx, cfg, choices, nil, true, []bool{})
	s := Sample{Config: cfg.Name, Choices: append([]int(nil), y.choices...), Outcome: y.outcome, Obs: y.obsLog}
	for _, p := range y.points {
		s.Labels = append(s.Labels, p.label)
	}
	if len(s.Obs) > 60 {
		s.Obs = append(s.Obs[:60], "...")
	}
	e.samples = append(e.samples, s)
}

// Result is what one worker reports.
type Result struct {
	ID               string           `json:"id"`
	Tier             string           `json:"tier"`
	Shard            string           `json:"shard"`
	Configs          int              `json:"configs"`
	ConfigsDone      int              `json:"configs_done"`
	Executions       int64            `json:"executions"`
	Transitions      int64            `json:"transitions"`
	States           int              `json:"states"`
	Pruned           int64            `json:"pruned"`
	MaxEnabled       int              `json:"max_enabled"`
	MaxDevs          int              `json:"max_devs"`
	Budget           int              `json:"budget_max"`
	Outcomes         map[string]int64 `json:"outcomes"`
	DistinctOutcomes int              `json:"distinct_outcomes"`
	OutcomeHashes    []string         `json:"outcome_hashes,omitempty"` // all of them (up to 50000), so that shards can be united exactly
	Failures         []Failure        `json:"failures"`
	FailSigs         map[string]int   `json:"fail_sigs"`
	Samples          []Sample         `json:"samples"`
	Exhaustive       bool             `json:"exhaustive"`
	ReplayChecks     int64            `json:"replay_checks"`
	Nondet           []string         `json:"nondeterminism"`
	WallS            float64          `json:"wall_s"`
	Extra            map[string]int64 `json:"extra,omitempty"`
}

// Extra counters a harness may bump (per process; merged by the parent).
var Extra = map[string]int64{}

// Count bumps a named harness counter.
func Count(name string, d int64) { Extra[name] += d }

func envInt(name string, def int) int {
	if v := os.Getenv(name); v != "" {
		if n, err := strconv.Atoi(v); err == nil {
			return n
		}
	}
	return def
}

// Main is called from a TestVMC_<ID> function.
func Main(t *testing.T, h Harness) {
	tier := os.Getenv("VMC_TIER")
	if tier == "" {
		tier = "quick"
	}
	start := time.Now()
	e := &explorer{h: h, t: t, tier: tier, maxPoints: 100000,
		states: map[uint64]struct{}{}, stateKeys: map[string][]seenEntry{}, outcomes: map[string]int64{},
		failSigs: map[string]int{}, shardN: 1, sampleEvery: 1000}
	e.noPrune = os.Getenv("VMC_NOPRUNE") == "1"
	e.freerun = os.Getenv("VMC_FREERUN") == "1"
	if s := os.Getenv("VMC_SHARD"); s != "" {
		fmt.Sscanf(s, "%d/%d", &e.shardI, &e.shardN)
	}
	e.deadline = start.Add(time.Duration(envInt("VMC_DEADLINE_S", 3600)) * time.Second)
	if p := os.Getenv("VMC_INFLIGHT"); p != "" {
		f, err := os.OpenFile(p, os.O_CREATE|os.O_RDWR|os.O_TRUNC, 0o644)
		if err == nil {
			e.inflight = f
			defer f.Close()
		}
	}
	cfgs := h.Configs(tier)
	res := Result{ID: h.ID, Tier: tier, Shard: fmt.Sprintf("%d/%d", e.shardI, e.shardN), Configs: len(cfgs)}

	if rp := os.Getenv("VMC_REPLAY"); rp != "" {
		replay(t, e, cfgs, rp)
		return
	}

	if e.freerun {
		// advisory pass for the race detector (binary built with -race, GOMAXPROCS > 1): the
		// cooperative scheduler is inactive, choices are random; this is sampling and decides nothing
		n := envInt("VMC_FREERUN_N", 20)
		maxCfg := envInt("VMC_FREERUN_CFGS", 200)
		for ci, cfg := range cfgs {
			if ci >= maxCfg || time.Now().After(e.deadline) {
				break
			}
			e.budget = cfg.Budget
			for i := 0; i < n; i++ {
				x := e.runOne(ci, cfg, nil, nil, false)
				e.account(cfg, x)
			}
		}
		fmt.Printf("FREERUN %s executions=%d oracle-failures=%d\n", h.ID, e.execs, e.totalFails())
		for sig, cnt := range e.failSigs {
			fmt.Printf("FREERUN-FAILURE %s x%d\n", sig, cnt)
		}
		return
	}
	for ci, cfg := range cfgs {
		if !h.ShardSubtree && e.shardN > 1 && ci%e.shardN != e.shardI {
			continue
		}
		e.budget = cfg.Budget
		if cfg.Budget > res.Budget {
			res.Budget = cfg.Budget
		}
		e.cfgName = cfg.Name
		e.subtreeCounter = 0
		// a fresh visited set per configuration: keys are only comparable within one world
		e.stateKeys = map[string][]seenEntry{}
		own := !h.ShardSubtree || e.shardN == 1 || e.shardI == 0
		before := e.execs
		e.explore(ci, cfg, nil, nil, 0, own)
		if os.Getenv("VMC_PERCFG") == "1" {
			fmt.Printf("PERCFG %d %q %d\n", ci, cfg.Name, e.execs-before)
		}
		res.States += len(e.stateKeys)
		if e.timedOut {
			break
		}
		res.ConfigsDone++
		if e.totalFails() > 500 {
			break
		}
	}
	res.Executions = e.execs
	res.Transitions = e.transitions
	res.States += len(e.states)
	res.Pruned = e.pruned
	res.MaxEnabled = e.maxEnabled
	res.MaxDevs = e.maxDevs
	res.DistinctOutcomes = len(e.outcomes)
	res.Outcomes = topOutcomes(e.outcomes, 40)
	for oc := range e.outcomes {
		if len(res.OutcomeHashes) >= 50000 {
			break
		}
		h := fnv.New64a()
		h.Write([]byte(oc))
		res.OutcomeHashes = append(res.OutcomeHashes, fmt.Sprintf("%x", h.Sum64()))
	}
	res.Failures = e.failures
	res.FailSigs = e.failSigs
	res.Samples = e.samples
	res.Exhaustive = !e.timedOut && e.totalFails() <= 500
	res.ReplayChecks = e.replayChecks
	res.Nondet = e.nondet
	res.WallS = time.Since(start).Seconds()
	res.Extra = Extra
	if out := os.Getenv("VMC_OUT"); out != "" {
		b, _ := json.MarshalIndent(res, "", " ")
		if err := os.WriteFile(out, b, 0o644); err != nil {
			t.Fatalf("vmc: cannot write result: %v", err)
		}
	} else {
		b, _ := json.MarshalIndent(res, "", " ")
		fmt.Println(string(b))
	}
}

func topOutcomes(m map[string]int64, n int) map[string]int64 {
	type kv struct {
		k string
		v int64
	}
	var l []kv
	for k, v := range m {
		l = append(l, kv{k, v})
	}
	sort.Slice(l, func(i, j int) bool {
		if l[i].v != l[j].v {
			return l[i].v > l[j].v
		}
		return l[i].k < l[j].k
	})
	out := map[string]int64{}
	for i, e := range l {
		if i >= n {
			break
		}
		k := e.k
		if len(k) > 200 {
			k = k[:200]
		}
		out[k] = e.v
	}
	return out
}

// ReplayFile is the replay artefact format.
type ReplayFile struct {
	Property string   `json:"property"`
	Config   string   `json:"config"`
	CfgIdx   int      `json:"cfg_idx"`
	Tier     string   `json:"tier"`
	Choices  []int    `json:"choices"`
	Sig      string   `json:"sig,omitempty"`
	Msg      string   `json:"msg,omitempty"`
	Labels   []string `json:"labels,omitempty"`
}

type replayOut struct {
	Sigs    []string `json:"sigs"`
	Msgs    []string `json:"msgs"`
	ObsHash string   `json:"obs_hash"`
	Obs     []string `json:"obs"`
	Choices []int    `json:"choices"`
	Labels  []string `json:"labels"`
	Nondet  string   `json:"nondet,omitempty"`
	Outcome string   `json:"outcome"`
}

func replay(t *testing.T, e *explorer, cfgs []Cfg, path string) {
	b, err := os.ReadFile(path)
	if err != nil {
		t.Fatalf("vmc: replay: %v", err)
	}
	var rf ReplayFile
	if err := json.Unmarshal(b, &rf); err != nil {
		t.Fatalf("vmc: replay: %v", err)
	}
	ci := -1
	for i, c := range cfgs {
		if c.Name == rf.Config {
			ci = i
			break
		}
	}
	if ci < 0 {
		if rf.CfgIdx < len(cfgs) && rf.Config == "" {
			ci = rf.CfgIdx
		} else {
			t.Fatalf("vmc: replay: configuration %q not found in tier %s", rf.Config, e.tier)
		}
	}
	e.budget = 1 << 30
	e.cfgName = cfgs[ci].Name
	x := e.runOneSeen(ci, cfgs[ci], rf.Choices, nil, true, []bool{})
	out := replayOut{ObsHash: fmt.Sprintf("%x", x.obsHash), Obs: x.obsLog, Choices: x.choices, Nondet: x.nondet, Outcome: x.outcome}
	for _, p := range x.points {
		out.Labels = append(out.Labels, p.label)
	}
	for _, f := range x.fails {
		out.Sigs = append(out.Sigs, f.Sig)
		out.Msgs = append(out.Msgs, f.Msg)
	}
	jb, _ := json.MarshalIndent(out, "", " ")
	if o := os.Getenv("VMC_OUT"); o != "" {
		os.WriteFile(o, jb, 0o644)
	} else {
		fmt.Println(string(jb))
	}
}
