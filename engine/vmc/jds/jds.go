//go:build verif

// Package jds is an in-memory journaling datastore (E5/E6): every mutation is journaled, the
// store can be rebuilt from any journal prefix (crash points), a hook runs before every
// operation (scheduling point / fault injection), and query results are sorted so that map
// iteration order never leaks into an execution.
package jds

import (
	"context"
	"errors"
	"fmt"
	"sort"
	"strings"
	gosync "sync"

	ds "github.com/ipfs/go-datastore"
	dsq "github.com/ipfs/go-datastore/query"
)

// Entry is one journaled mutation.
type Entry struct {
	Store string // name of the store within its group
	Op    string // "put", "delete", "sync", "destroy"
	Key   string
	Value []byte
	Batch int // >0: part of batch commit number Batch
}

// Group is a set of named stores sharing one journal (one global order of writes), so that a
// crash instant is consistent across several datastores (factory-mode keystore: meta + slots).
type Group struct {
	mu      gosync.Mutex
	journal []Entry
	stores  map[string]*Store
	batches int
}

// NewGroup creates an empty group.
func NewGroup() *Group { return &Group{stores: map[string]*Store{}} }

// Open returns the named store, creating it (empty) if needed.
func (g *Group) Open(name string) *Store {
	g.mu.Lock()
	defer g.mu.Unlock()
	if s, ok := g.stores[name]; ok {
		s.closed = false
		return s
	}
	s := &Store{m: map[string][]byte{}, g: g, name: name}
	g.stores[name] = s
	return s
}

// Destroy removes the named store and its contents (journaled, treated as immediately durable).
func (g *Group) Destroy(name string) {
	g.mu.Lock()
	defer g.mu.Unlock()
	if s, ok := g.stores[name]; ok {
		s.m = map[string][]byte{}
		delete(g.stores, name)
	}
	g.journal = append(g.journal, Entry{Store: name, Op: "destroy"})
}

// Names lists the existing stores.
func (g *Group) Names() []string {
	g.mu.Lock()
	defer g.mu.Unlock()
	var out []string
	for n := range g.stores {
		out = append(out, n)
	}
	sort.Strings(out)
	return out
}

// Journal returns a copy of the group's journal.
func (g *Group) Journal() []Entry {
	g.mu.Lock()
	defer g.mu.Unlock()
	return append([]Entry(nil), g.journal...)
}

// JournalLen is the number of journal entries so far.
func (g *Group) JournalLen() int {
	g.mu.Lock()
	defer g.mu.Unlock()
	return len(g.journal)
}

func under(key, prefix string) bool {
	if prefix == "" || prefix == "/" {
		return true
	}
	return key == prefix || strings.HasPrefix(key, prefix+"/")
}

// Pending returns, per store, the indices (< t) of journaled writes that are not yet durable
// at journal instant t. Crash model (ordered write-ahead log per store): a Sync on a store,
// whatever its prefix, makes every earlier write of that store durable; at a crash each store
// independently loses a suffix of its pending writes. Destroy entries are durable at once.
func Pending(journal []Entry, t int) map[string][]int {
	out := map[string][]int{}
	for i := 0; i < t; i++ {
		e := journal[i]
		switch e.Op {
		case "put", "delete":
			out[e.Store] = append(out[e.Store], i)
		case "sync":
			delete(out, e.Store)
		case "destroy":
			delete(out, e.Store)
		}
	}
	return out
}

// CrashImage builds the group as found after a crash at journal instant t in which exactly the
// pending writes listed in lost did not reach the disk (every durable write and every other
// pending write did). The image has an empty journal and no hooks.
func CrashImage(journal []Entry, t int, lost map[int]bool) *Group {
	g := NewGroup()
	for i := 0; i < t; i++ {
		e := journal[i]
		if lost[i] {
			continue
		}
		switch e.Op {
		case "put":
			g.Open(e.Store).m[e.Key] = append([]byte(nil), e.Value...)
		case "delete":
			if s, ok := g.stores[e.Store]; ok {
				delete(s.m, e.Key)
			}
		case "destroy":
			delete(g.stores, e.Store)
		}
	}
	return g
}

// Dump renders every store of the group canonically.
func (g *Group) Dump() string {
	var sb strings.Builder
	for _, n := range g.Names() {
		g.mu.Lock()
		s := g.stores[n]
		g.mu.Unlock()
		fmt.Fprintf(&sb, "[%s]%s", n, s.Dump())
	}
	return sb.String()
}

// Store implements ds.Batching.
type Store struct {
	mu     gosync.Mutex
	m      map[string][]byte
	g      *Group
	name   string
	closed bool
	// Hook, if set, is called before every operation, outside the store's lock. A non-nil
	// error is returned to the caller and the operation has no effect.
	Hook func(op, key string) error
	// Calls counts operations (incl. failed ones).
	Calls int
	// CallsAfterFence counts operations that *started* after Fence() was called.
	CallsAfterFence int
	fenced          bool
	// ReverseQuery makes unordered query results come back in descending key order.
	ReverseQuery bool
}

var _ ds.Batching = (*Store)(nil)

// ErrInjected is what fault-injecting hooks return.
var ErrInjected = errors.New("jds: injected datastore error")

// New creates a store in a group of its own.
func New() *Store { return NewGroup().Open("") }

// Group returns the group the store belongs to.
func (s *Store) Group() *Group { return s.g }

func (s *Store) log(e Entry) {
	e.Store = s.name
	s.g.mu.Lock()
	s.g.journal = append(s.g.journal, e)
	s.g.mu.Unlock()
}

func (s *Store) pre(op, key string) error {
	s.mu.Lock()
	s.Calls++
	if s.fenced {
		s.CallsAfterFence++
	}
	h := s.Hook
	s.mu.Unlock()
	if h != nil {
		return h(op, key)
	}
	return nil
}

// Fence marks the instant after which no operation may start (C07: after Close returned).
func (s *Store) Fence() { s.mu.Lock(); s.fenced = true; s.mu.Unlock() }

func (s *Store) Put(ctx context.Context, key ds.Key, value []byte) error {
	if err := s.pre("put", key.String()); err != nil {
		return err
	}
	s.mu.Lock()
	defer s.mu.Unlock()
	v := append([]byte(nil), value...)
	s.m[key.String()] = v
	s.log(Entry{Op: "put", Key: key.String(), Value: v})
	return nil
}

func (s *Store) Delete(ctx context.Context, key ds.Key) error {
	if err := s.pre("delete", key.String()); err != nil {
		return err
	}
	s.mu.Lock()
	defer s.mu.Unlock()
	delete(s.m, key.String())
	s.log(Entry{Op: "delete", Key: key.String()})
	return nil
}

func (s *Store) Sync(ctx context.Context, prefix ds.Key) error {
	if err := s.pre("sync", prefix.String()); err != nil {
		return err
	}
	s.mu.Lock()
	defer s.mu.Unlock()
	s.log(Entry{Op: "sync", Key: prefix.String()})
	return nil
}

func (s *Store) Get(ctx context.Context, key ds.Key) ([]byte, error) {
	if err := s.pre("get", key.String()); err != nil {
		return nil, err
	}
	s.mu.Lock()
	defer s.mu.Unlock()
	v, ok := s.m[key.String()]
	if !ok {
		return nil, ds.ErrNotFound
	}
	return append([]byte(nil), v...), nil
}

func (s *Store) Has(ctx context.Context, key ds.Key) (bool, error) {
	if err := s.pre("has", key.String()); err != nil {
		return false, err
	}
	s.mu.Lock()
	defer s.mu.Unlock()
	_, ok := s.m[key.String()]
	return ok, nil
}

func (s *Store) GetSize(ctx context.Context, key ds.Key) (int, error) {
	if err := s.pre("getsize", key.String()); err != nil {
		return -1, err
	}
	s.mu.Lock()
	defer s.mu.Unlock()
	v, ok := s.m[key.String()]
	if !ok {
		return -1, ds.ErrNotFound
	}
	return len(v), nil
}

func (s *Store) Query(ctx context.Context, q dsq.Query) (dsq.Results, error) {
	if err := s.pre("query", q.Prefix); err != nil {
		return nil, err
	}
	s.mu.Lock()
	keys := make([]string, 0, len(s.m))
	for k := range s.m {
		keys = append(keys, k)
	}
	sort.Strings(keys)
	if s.ReverseQuery {
		for i, j := 0, len(keys)-1; i < j; i, j = i+1, j-1 {
			keys[i], keys[j] = keys[j], keys[i]
		}
	}
	re := make([]dsq.Entry, 0, len(keys))
	for _, k := range keys {
		v := s.m[k]
		e := dsq.Entry{Key: k, Size: len(v)}
		if !q.KeysOnly {
			e.Value = append([]byte(nil), v...)
		}
		re = append(re, e)
	}
	s.mu.Unlock()
	r := dsq.ResultsWithEntries(q, re)
	return dsq.NaiveQueryApply(q, r), nil
}

func (s *Store) Close() error {
	s.mu.Lock()
	s.closed = true
	s.mu.Unlock()
	return nil
}

type batchOp struct {
	del   bool
	key   string
	value []byte
}

type batch struct {
	s   *Store
	ops []batchOp
}

func (s *Store) Batch(ctx context.Context) (ds.Batch, error) {
	if err := s.pre("batch", ""); err != nil {
		return nil, err
	}
	return &batch{s: s}, nil
}

func (b *batch) Put(ctx context.Context, key ds.Key, value []byte) error {
	b.ops = append(b.ops, batchOp{key: key.String(), value: append([]byte(nil), value...)})
	return nil
}

func (b *batch) Delete(ctx context.Context, key ds.Key) error {
	b.ops = append(b.ops, batchOp{del: true, key: key.String()})
	return nil
}

func (b *batch) Commit(ctx context.Context) error {
	if err := b.s.pre("commit", fmt.Sprintf("%d ops", len(b.ops))); err != nil {
		return err
	}
	s := b.s
	s.mu.Lock()
	defer s.mu.Unlock()
	s.g.mu.Lock()
	s.g.batches++
	bn := s.g.batches
	s.g.mu.Unlock()
	for _, op := range b.ops {
		if op.del {
			delete(s.m, op.key)
			s.log(Entry{Op: "delete", Key: op.key, Batch: bn})
		} else {
			s.m[op.key] = op.value
			s.log(Entry{Op: "put", Key: op.key, Value: op.value, Batch: bn})
		}
	}
	b.ops = nil
	return nil
}

// Journal returns a copy of the group's journal.
func (s *Store) Journal() []Entry { return s.g.Journal() }

// JournalLen is the number of journal entries of the group so far.
func (s *Store) JournalLen() int { return s.g.JournalLen() }

// Clone copies the current contents into a fresh store (no hook, empty journal).
func (s *Store) Clone() *Store {
	s.mu.Lock()
	defer s.mu.Unlock()
	c := New()
	for k, v := range s.m {
		c.m[k] = append([]byte(nil), v...)
	}
	return c
}

// Len is the number of stored keys.
func (s *Store) Len() int {
	s.mu.Lock()
	defer s.mu.Unlock()
	return len(s.m)
}

// Keys returns the sorted keys.
func (s *Store) Keys() []string {
	s.mu.Lock()
	defer s.mu.Unlock()
	keys := make([]string, 0, len(s.m))
	for k := range s.m {
		keys = append(keys, k)
	}
	sort.Strings(keys)
	return keys
}

// Raw returns the stored bytes without counting as an access.
func (s *Store) Raw(key string) ([]byte, bool) {
	s.mu.Lock()
	defer s.mu.Unlock()
	v, ok := s.m[key]
	return v, ok
}

// SetRaw writes bytes without hook or journal (to plant corrupt data).
func (s *Store) SetRaw(key string, v []byte) {
	s.mu.Lock()
	defer s.mu.Unlock()
	s.m[key] = v
}

// Dump is a canonical rendering of the contents (keys and value hashes/lengths).
func (s *Store) Dump() string {
	s.mu.Lock()
	defer s.mu.Unlock()
	keys := make([]string, 0, len(s.m))
	for k := range s.m {
		keys = append(keys, k)
	}
	sort.Strings(keys)
	var sb strings.Builder
	for _, k := range keys {
		fmt.Fprintf(&sb, "%s=%x;", k, s.m[k])
	}
	return sb.String()
}
