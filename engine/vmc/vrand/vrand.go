//go:build verif

// Package vrand stands in for crypto/rand in the overlay copy of provider/provider.go (one import
// line is redirected, like "sync" -> vsync). The sweeping provider measures the network's prefix
// length with GetClosestPeers calls for random keys; crypto/rand cannot be seeded, so without this
// seam the schedule (and with it the number of ADD_PROVIDER messages of a program) differs from
// run to run. With Hook == nil it is crypto/rand.
package vrand

import (
	crand "crypto/rand"
	"crypto/sha256"
	"encoding/binary"
	gosync "sync"
)

// Hook, when non-nil, fills b instead of crypto/rand.
var Hook func(b []byte)

// Read is crypto/rand.Read unless a Hook is installed.
func Read(b []byte) (int, error) {
	if h := Hook; h != nil {
		h(b)
		return len(b), nil
	}
	return crand.Read(b)
}

// Seeded returns a Hook producing the deterministic sequence SHA-256(seed, 0), SHA-256(seed, 1), ...
func Seeded(seed uint64) func(b []byte) {
	var mu gosync.Mutex
	var ctr uint64
	return func(b []byte) {
		mu.Lock()
		c := ctr
		ctr++
		mu.Unlock()
		var in [16]byte
		binary.BigEndian.PutUint64(in[:8], seed)
		binary.BigEndian.PutUint64(in[8:], c)
		for off := 0; off < len(b); {
			h := sha256.Sum256(in[:])
			off += copy(b[off:], h[:])
			in[0]++
		}
	}
}
