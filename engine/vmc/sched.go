//go:build verif

package vmc

import (
	"fmt"
	"runtime"
	"sort"
	"strconv"
	"strings"
	gosync "sync"
	"testing/synctest"
)

// Sched is the cooperative scheduler (E2). Goroutines park at Points (called from hooked
// environment operations: datastore wrapper, fake streams/host, shimmed locks). The driver
// waits for quiescence (synctest.Wait), then lets the explorer choose which parked goroutine
// (or harness-level action) goes next. Exactly one choice is released between two quiescent
// instants. Must be used inside a synctest bubble.
type Sched struct {
	x       *X
	mu      gosync.Mutex // real mutex, only held for map updates (never across a park)
	active  bool
	parked  map[string]*parkedG
	byGid   map[uint64]string
	nameCnt map[string]int
	last    string
	threads map[string]*bool
	// Preemptions counts switches away from a still-enabled goroutine in this execution.
	Preemptions int
	Steps       int
	// Filter, if set, decides whether a Point with this label parks (true) or passes through.
	Filter func(label string) bool
	// NameByLabel: goroutines that are not harness threads are identified by entry function and
	// the label they are parked at (plus an arrival counter among equals) instead of by arrival
	// order alone. For components that start interchangeable goroutines in map-iteration order.
	NameByLabel bool
	// StrictOrder: every alternative but the first costs one deviation (not only switches away
	// from the goroutine that ran last). For harnesses with a canonical base schedule.
	StrictOrder bool
	lastGid     uint64
}

type parkedG struct {
	name  string
	label string
	gid   uint64
	grant chan struct{}
}

// Action is a harness-level alternative offered next to the parked goroutines.
type Action struct {
	Label string
	Cost  int // extra deviation cost (0 = program progress, 1 = environment deviation)
	Do    func()
}

// NewSched creates an active scheduler for execution x.
func NewSched(x *X) *Sched {
	return &Sched{x: x, active: !x.e.freerun, parked: map[string]*parkedG{}, byGid: map[uint64]string{}, nameCnt: map[string]int{}, threads: map[string]*bool{}}
}

func curGid() uint64 {
	var buf [64]byte
	n := runtime.Stack(buf[:], false)
	// "goroutine 123 ["
	s := string(buf[:n])
	s = strings.TrimPrefix(s, "goroutine ")
	i := strings.IndexByte(s, ' ')
	if i < 0 {
		return 0
	}
	id, _ := strconv.ParseUint(s[:i], 10, 64)
	return id
}

func entryFunc() string {
	buf := make([]byte, 16384)
	n := runtime.Stack(buf, false)
	s := string(buf[:n])
	if i := strings.LastIndex(s, "created by "); i >= 0 {
		l := s[i+len("created by "):]
		if j := strings.IndexAny(l, " \n"); j >= 0 {
			l = l[:j]
		}
		if k := strings.LastIndex(l, "/"); k >= 0 {
			l = l[k+1:]
		}
		return l
	}
	return "g"
}

// GoNow starts a named harness thread that runs at once (no initial scheduling point).
func (s *Sched) GoNow(name string, f func()) { s.spawn(name, f, false) }

// Go starts a named harness thread. It parks at point "start" before running f.
func (s *Sched) Go(name string, f func()) { s.spawn(name, f, true) }

func (s *Sched) spawn(name string, f func(), park bool) {
	done := new(bool)
	s.mu.Lock()
	s.threads[name] = done
	s.mu.Unlock()
	go func() {
		s.mu.Lock()
		s.byGid[curGid()] = name
		s.mu.Unlock()
		if park {
			s.Point("start")
		}
		defer func() {
			s.mu.Lock()
			*done = true
			s.mu.Unlock()
		}()
		f()
	}()
}

// Done reports whether the named harness thread has finished.
func (s *Sched) Done(name string) bool {
	s.mu.Lock()
	defer s.mu.Unlock()
	d, ok := s.threads[name]
	return ok && *d
}

// AllDone reports whether every harness thread has finished.
func (s *Sched) AllDone() bool {
	s.mu.Lock()
	defer s.mu.Unlock()
	for _, d := range s.threads {
		if !*d {
			return false
		}
	}
	return true
}

// Unfinished lists the harness threads that have not finished.
func (s *Sched) Unfinished() []string {
	s.mu.Lock()
	defer s.mu.Unlock()
	var out []string
	for n, d := range s.threads {
		if !*d {
			out = append(out, n)
		}
	}
	sort.Strings(out)
	return out
}

// Point parks the calling goroutine until the driver grants it. A no-op when the
// scheduler is inactive (set-up and tear-down phases).
func (s *Sched) Point(label string) {
	s.mu.Lock()
	if !s.active || (s.Filter != nil && !s.Filter(label)) {
		s.mu.Unlock()
		return
	}
	gid := curGid()
	name, ok := s.byGid[gid]
	if !ok && s.NameByLabel {
		base := entryFunc() + ":" + label
		name = base
		for n := 2; ; n++ {
			if _, taken := s.parked[name]; !taken {
				break
			}
			name = fmt.Sprintf("%s#%d", base, n)
		}
	} else if !ok {
		base := entryFunc()
		s.nameCnt[base]++
		name = base
		if s.nameCnt[base] > 1 {
			name = fmt.Sprintf("%s#%d", base, s.nameCnt[base])
		}
		s.byGid[gid] = name
	}
	p := &parkedG{name: name, label: label, gid: gid, grant: make(chan struct{})}
	s.parked[name] = p
	s.mu.Unlock()
	<-p.grant
}

// Finish deactivates the scheduler and releases every parked goroutine (tear-down).
func (s *Sched) Finish() {
	s.mu.Lock()
	s.active = false
	ps := s.parked
	s.parked = map[string]*parkedG{}
	s.mu.Unlock()
	names := make([]string, 0, len(ps))
	for n := range ps {
		names = append(names, n)
	}
	sort.Strings(names)
	for _, n := range names {
		close(ps[n].grant)
	}
}

// Parked returns the sorted names (with labels) of the goroutines parked right now.
// Call only at quiescence.
func (s *Sched) Parked() []string {
	s.mu.Lock()
	defer s.mu.Unlock()
	var out []string
	for n, p := range s.parked {
		out = append(out, n+"@"+p.label)
	}
	sort.Strings(out)
	return out
}

// Step waits for quiescence and releases one alternative chosen by the explorer among the
// parked goroutines and the given actions. It returns false if there was nothing to choose.
// Canonical order: the goroutine released last (if parked again) first, then the others by
// name, then the actions in the given order. Choosing anything but the first while the last
// released goroutine is still enabled costs one preemption.
func (s *Sched) Step(actions []Action) bool {
	synctest.Wait()
	s.mu.Lock()
	names := make([]string, 0, len(s.parked))
	for n := range s.parked {
		names = append(names, n)
	}
	sort.Strings(names)
	lastEnabled := false
	if s.NameByLabel && s.lastGid != 0 {
		s.last = ""
		for n, p := range s.parked {
			if p.gid == s.lastGid {
				s.last = n
			}
		}
	}
	if _, ok := s.parked[s.last]; ok && s.last != "" {
		lastEnabled = true
		rest := names[:0:0]
		rest = append(rest, s.last)
		for _, n := range names {
			if n != s.last {
				rest = append(rest, n)
			}
		}
		names = rest
	}
	labels := make([]string, 0, len(names)+len(actions))
	for _, n := range names {
		labels = append(labels, n+"@"+s.parked[n].label)
	}
	s.mu.Unlock()
	for _, a := range actions {
		labels = append(labels, "!"+a.Label)
	}
	n := len(labels)
	if n == 0 {
		return false
	}
	costs := make([]int, n)
	for i := range costs {
		if (lastEnabled || s.StrictOrder) && i != 0 {
			costs[i] = 1
		}
		if i >= len(names) {
			costs[i] += actions[i-len(names)].Cost
		}
	}
	label := strings.Join(labels, " | ")
	if len(label) > 300 {
		label = label[:300]
	}
	c := s.x.ChooseCost(n, label, costs)
	s.Steps++
	if lastEnabled && c != 0 {
		s.Preemptions++
	}
	if s.x.trace {
		s.x.obsLog = append(s.x.obsLog, "    -> "+labels[c])
	}
	if c < len(names) {
		s.mu.Lock()
		p := s.parked[names[c]]
		delete(s.parked, names[c])
		s.last = names[c]
		s.lastGid = p.gid
		s.mu.Unlock()
		close(p.grant)
	} else {
		// an action does not change which goroutine ran last
		actions[c-len(names)].Do()
	}
	return true
}

// Quiesce waits until every goroutine of the bubble is durably blocked.
func (s *Sched) Quiesce() { synctest.Wait() }

// ParkedOthers returns the parked goroutines (name@label, sorted) that are not harness threads
// started with Go/GoNow: goroutines the component under test started itself and that are
// currently inside a hooked operation. Call only at quiescence.
func (s *Sched) ParkedOthers() []string {
	s.mu.Lock()
	defer s.mu.Unlock()
	var out []string
	for n, p := range s.parked {
		if _, harness := s.threads[n]; harness {
			continue
		}
		out = append(out, n+"@"+p.label)
	}
	sort.Strings(out)
	return out
}
