//go:build verif

package vmc

import (
	"regexp"
	"runtime"
	"sort"
	"strings"
)

var bubbleRe = regexp.MustCompile(`synctest bubble (\d+)`)

// LeakedGoroutines lists, for every goroutine of the *current* synctest bubble other than the
// caller, the innermost function that does not belong to the Go runtime / sync / context
// packages (with file:line of the repository frame when there is one). Call it after the
// component under test was closed and synctest.Wait() returned: whatever is left is leaked.
func LeakedGoroutines() []string {
	buf := make([]byte, 1<<20)
	n := runtime.Stack(buf, true)
	blocks := strings.Split(string(buf[:n]), "\n\n")
	if len(blocks) == 0 {
		return nil
	}
	m := bubbleRe.FindStringSubmatch(firstLineOf(blocks[0]))
	if m == nil {
		return nil
	}
	mine := "synctest bubble " + m[1] + "]"
	mine2 := "synctest bubble " + m[1] + ","
	var out []string
	for _, b := range blocks[1:] {
		h := firstLineOf(b)
		if !strings.Contains(h, mine) && !strings.Contains(h, mine2) {
			continue
		}
		lines := strings.Split(b, "\n")
		fn := "?"
		for i := 1; i+1 < len(lines); i += 2 {
			f := lines[i]
			if strings.HasPrefix(f, "runtime.") || strings.HasPrefix(f, "sync.") || strings.HasPrefix(f, "context.") ||
				strings.HasPrefix(f, "internal/") || strings.HasPrefix(f, "time.") || strings.HasPrefix(f, "created by") {
				continue
			}
			if j := strings.LastIndex(f, "("); j > 0 {
				f = f[:j]
			}
			if k := strings.LastIndex(f, "/"); k >= 0 {
				f = f[k+1:]
			}
			fn = f
			break
		}
		state := h
		if i := strings.Index(h, "["); i >= 0 {
			state = h[i+1:]
			if j := strings.IndexAny(state, ",]"); j >= 0 {
				state = state[:j]
			}
		}
		out = append(out, fn+" ["+state+"]")
	}
	sort.Strings(out)
	return out
}

func firstLineOf(s string) string {
	if i := strings.IndexByte(s, '\n'); i >= 0 {
		return s[:i]
	}
	return s
}
