//go:build verif

package sim

import (
	"context"
	"errors"
	"fmt"
	"io"
	"sort"
	gosync "sync"
	"time"

	"github.com/libp2p/go-libp2p/core/connmgr"
	ic "github.com/libp2p/go-libp2p/core/crypto"
	"github.com/libp2p/go-libp2p/core/event"
	"github.com/libp2p/go-libp2p/core/network"
	"github.com/libp2p/go-libp2p/core/peer"
	"github.com/libp2p/go-libp2p/core/peerstore"
	"github.com/libp2p/go-libp2p/core/protocol"
	"github.com/libp2p/go-libp2p/p2p/host/eventbus"
	"github.com/libp2p/go-libp2p/p2p/host/peerstore/pstoremem"
	ma "github.com/multiformats/go-multiaddr"
)

// Host is a hand-written host.Host + network.Network for use inside a synctest bubble: real
// in-memory peerstore and event bus, a connection/stream registry, and hooks through which the
// explorer owns dialing, stream opening and (optionally) every stream operation.
type Host struct {
	id    peer.ID
	ps    peerstore.Peerstore
	bus   event.Bus
	cm    connmgr.ConnManager
	mu    gosync.Mutex // real mutex; held only for registry updates, never across a hook
	addrs []ma.Multiaddr
	conns map[peer.ID][]*Conn
	hand  map[protocol.ID]network.StreamHandler
	notif []network.Notifiee
	seq   int

	// DialFn decides the outcome of dialing a peer we are not connected to (nil: success at once).
	DialFn func(ctx context.Context, p peer.ID) error
	// RemoteAddr gives the remote multiaddr of a new connection to p (nil: 10.0.0.x derived).
	RemoteAddr func(p peer.ID) ma.Multiaddr
	// OpenStream is called by NewStream after a connection exists; it must return the local end
	// of a new stream (typically after handing the remote end to a scripted peer).
	OpenStream func(ctx context.Context, c *Conn, protos []protocol.ID) (*Stream, error)
	// Point, when set, is called before registry/handler operations and stream I/O (scheduling points).
	Point func(label string)
	// SubscribeErr, when set, makes the n-th EventBus().Subscribe fail (constructor fault injection).
	Log []string
}

var _ network.Network = (*netw)(nil)

// NewHost creates a host with the given id and listen addresses.
func NewHost(id peer.ID, addrs ...ma.Multiaddr) *Host {
	ps, err := pstoremem.NewPeerstore()
	if err != nil {
		panic(err)
	}
	return &Host{id: id, ps: ps, bus: eventbus.NewBus(), cm: connmgr.NullConnMgr{}, addrs: addrs,
		conns: map[peer.ID][]*Conn{}, hand: map[protocol.ID]network.StreamHandler{}}
}

func (h *Host) point(l string) {
	if p := h.Point; p != nil {
		p(l)
	}
}

func (h *Host) ID() peer.ID                      { return h.id }
func (h *Host) Peerstore() peerstore.Peerstore   { return h.ps }
func (h *Host) Network() network.Network         { return (*netw)(h) }
func (h *Host) Mux() protocol.Switch             { return nil }
func (h *Host) ConnManager() connmgr.ConnManager { return h.cm }
func (h *Host) EventBus() event.Bus              { return h.bus }
func (h *Host) SetEventBus(b event.Bus)          { h.bus = b }
func (h *Host) Close() error                     { return h.ps.Close() }
func (h *Host) SetAddrs(a []ma.Multiaddr)        { h.mu.Lock(); h.addrs = a; h.mu.Unlock() }
func (h *Host) Addrs() []ma.Multiaddr {
	h.mu.Lock()
	defer h.mu.Unlock()
	return append([]ma.Multiaddr(nil), h.addrs...)
}

func (h *Host) SetStreamHandler(pid protocol.ID, handler network.StreamHandler) {
	h.point("host.SetStreamHandler " + string(pid))
	h.mu.Lock()
	h.hand[pid] = handler
	h.mu.Unlock()
}

func (h *Host) SetStreamHandlerMatch(pid protocol.ID, _ func(protocol.ID) bool, handler network.StreamHandler) {
	h.SetStreamHandler(pid, handler)
}

func (h *Host) RemoveStreamHandler(pid protocol.ID) {
	h.point("host.RemoveStreamHandler " + string(pid))
	h.mu.Lock()
	delete(h.hand, pid)
	h.mu.Unlock()
}

// Handler returns the registered handler for a protocol (nil if none).
func (h *Host) Handler(pid protocol.ID) network.StreamHandler {
	h.mu.Lock()
	defer h.mu.Unlock()
	return h.hand[pid]
}

// Protocols lists the protocols with a registered handler.
func (h *Host) Protocols() []protocol.ID {
	h.mu.Lock()
	defer h.mu.Unlock()
	var out []protocol.ID
	for p := range h.hand {
		out = append(out, p)
	}
	sort.Slice(out, func(i, j int) bool { return out[i] < out[j] })
	return out
}

func defaultAddr(p peer.ID) ma.Multiaddr {
	b := []byte(p)
	n := len(b)
	return ma.StringCast(fmt.Sprintf("/ip4/10.%d.%d.%d/tcp/4001", b[n-3], b[n-2], b[n-1]))
}

// AddConn registers a connection to p (no dialing, no hook).
func (h *Host) AddConn(p peer.ID, dir network.Direction, remote ma.Multiaddr) *Conn {
	if remote == nil {
		if h.RemoteAddr != nil {
			remote = h.RemoteAddr(p)
		} else {
			remote = defaultAddr(p)
		}
	}
	h.mu.Lock()
	h.seq++
	c := &Conn{h: h, id: fmt.Sprintf("c%d", h.seq), remote: p, raddr: remote, dir: dir, opened: time.Now()}
	h.conns[p] = append(h.conns[p], c)
	h.mu.Unlock()
	return c
}

// Disconnect closes every connection to p and emits EvtPeerConnectednessChanged.
func (h *Host) Disconnect(p peer.ID) {
	h.mu.Lock()
	cs := h.conns[p]
	delete(h.conns, p)
	h.mu.Unlock()
	for _, c := range cs {
		c.closeStreams()
	}
	if len(cs) > 0 {
		h.Emit(event.EvtPeerConnectednessChanged{Peer: p, Connectedness: network.NotConnected})
	}
}

// ResetAllStreams resets every stream of every connection (harness tear-down).
func (h *Host) ResetAllStreams() {
	h.mu.Lock()
	var cs []*Conn
	for _, l := range h.conns {
		cs = append(cs, l...)
	}
	h.mu.Unlock()
	for _, c := range cs {
		for _, s := range c.Streams() {
			s.resetNoPoint()
		}
	}
}

// Emit publishes an event on the host's bus.
func (h *Host) Emit(evt any) {
	var em event.Emitter
	var err error
	switch evt.(type) {
	case event.EvtPeerConnectednessChanged:
		em, err = h.bus.Emitter(new(event.EvtPeerConnectednessChanged))
	case event.EvtPeerIdentificationCompleted:
		em, err = h.bus.Emitter(new(event.EvtPeerIdentificationCompleted))
	case event.EvtPeerProtocolsUpdated:
		em, err = h.bus.Emitter(new(event.EvtPeerProtocolsUpdated))
	case event.EvtLocalReachabilityChanged:
		em, err = h.bus.Emitter(new(event.EvtLocalReachabilityChanged))
	case event.EvtLocalAddressesUpdated:
		em, err = h.bus.Emitter(new(event.EvtLocalAddressesUpdated))
	default:
		panic(fmt.Sprintf("sim: Emit: unsupported event %T", evt))
	}
	if err != nil {
		panic(err)
	}
	_ = em.Emit(evt)
	_ = em.Close()
}

func (h *Host) Connect(ctx context.Context, pi peer.AddrInfo) error {
	if len(pi.Addrs) > 0 {
		h.ps.AddAddrs(pi.ID, pi.Addrs, peerstore.TempAddrTTL)
	}
	_, err := (*netw)(h).DialPeer(ctx, pi.ID)
	return err
}

func (h *Host) NewStream(ctx context.Context, p peer.ID, pids ...protocol.ID) (network.Stream, error) {
	h.point("host.NewStream")
	c, err := (*netw)(h).DialPeer(ctx, p)
	if err != nil {
		return nil, err
	}
	if h.OpenStream == nil {
		return nil, errors.New("sim: host has no OpenStream hook")
	}
	s, err := h.OpenStream(ctx, c.(*Conn), pids)
	if err != nil {
		return nil, err
	}
	return s, nil
}

// Inbound opens an inbound stream from remote peer p speaking proto and runs the registered
// handler on its local end in a new goroutine. It returns the remote end. If no handler is
// registered it returns nil.
func (h *Host) Inbound(p peer.ID, proto protocol.ID) *Stream {
	hd := h.Handler(proto)
	if hd == nil {
		return nil
	}
	h.mu.Lock()
	var c *Conn
	if cs := h.conns[p]; len(cs) > 0 {
		c = cs[0]
	}
	h.mu.Unlock()
	if c == nil {
		c = h.AddConn(p, network.DirInbound, nil)
	}
	local, remote := NewStreamPair(c, proto, network.DirInbound)
	go hd(local)
	return remote
}

// ---- network.Network --------------------------------------------------------------------------------

type netw Host

func (n *netw) h() *Host                                          { return (*Host)(n) }
func (n *netw) Peerstore() peerstore.Peerstore                    { return n.ps }
func (n *netw) LocalPeer() peer.ID                                { return n.id }
func (n *netw) Close() error                                      { return nil }
func (n *netw) SetStreamHandler(network.StreamHandler)            {}
func (n *netw) Listen(...ma.Multiaddr) error                      { return nil }
func (n *netw) ListenAddresses() []ma.Multiaddr                   { return n.h().Addrs() }
func (n *netw) InterfaceListenAddresses() ([]ma.Multiaddr, error) { return n.h().Addrs(), nil }
func (n *netw) ResourceManager() network.ResourceManager          { return &network.NullResourceManager{} }
func (n *netw) CanDial(peer.ID, ma.Multiaddr) bool                { return true }
func (n *netw) Notify(f network.Notifiee)                         { n.mu.Lock(); n.notif = append(n.notif, f); n.mu.Unlock() }
func (n *netw) StopNotify(f network.Notifiee) {
	n.mu.Lock()
	defer n.mu.Unlock()
	for i, x := range n.notif {
		if x == f {
			n.notif = append(n.notif[:i], n.notif[i+1:]...)
			return
		}
	}
}

func (n *netw) NewStream(ctx context.Context, p peer.ID) (network.Stream, error) {
	return n.h().NewStream(ctx, p)
}

func (n *netw) DialPeer(ctx context.Context, p peer.ID) (network.Conn, error) {
	n.mu.Lock()
	if cs := n.conns[p]; len(cs) > 0 {
		c := cs[0]
		n.mu.Unlock()
		return c, nil
	}
	n.mu.Unlock()
	if p == n.id {
		return nil, errors.New("sim: dial to self attempted")
	}
	if f := n.DialFn; f != nil {
		if err := f(ctx, p); err != nil {
			return nil, err
		}
	}
	if err := ctx.Err(); err != nil {
		return nil, err
	}
	return n.h().AddConn(p, network.DirOutbound, nil), nil
}

func (n *netw) ClosePeer(p peer.ID) error { n.h().Disconnect(p); return nil }

func (n *netw) Connectedness(p peer.ID) network.Connectedness {
	n.mu.Lock()
	defer n.mu.Unlock()
	if len(n.conns[p]) > 0 {
		return network.Connected
	}
	return network.NotConnected
}

func (n *netw) Peers() []peer.ID {
	n.mu.Lock()
	defer n.mu.Unlock()
	var out []peer.ID
	for p, cs := range n.conns {
		if len(cs) > 0 {
			out = append(out, p)
		}
	}
	sort.Slice(out, func(i, j int) bool { return out[i] < out[j] })
	return out
}

func (n *netw) Conns() []network.Conn {
	n.h().point("net.Conns")
	n.mu.Lock()
	defer n.mu.Unlock()
	var ps []peer.ID
	for p := range n.conns {
		ps = append(ps, p)
	}
	sort.Slice(ps, func(i, j int) bool { return ps[i] < ps[j] })
	var out []network.Conn
	for _, p := range ps {
		for _, c := range n.conns[p] {
			out = append(out, c)
		}
	}
	return out
}

func (n *netw) ConnsToPeer(p peer.ID) []network.Conn {
	n.mu.Lock()
	defer n.mu.Unlock()
	var out []network.Conn
	for _, c := range n.conns[p] {
		out = append(out, c)
	}
	return out
}

// ---- network.Conn -------------------------------------------------------------------------------------

// Conn is a fake connection.
type Conn struct {
	h       *Host
	id      string
	remote  peer.ID
	raddr   ma.Multiaddr
	dir     network.Direction
	opened  time.Time
	mu      gosync.Mutex
	streams []*Stream
	closed  bool
	Limited bool
}

func (c *Conn) Close() error                               { c.h.Disconnect(c.remote); return nil }
func (c *Conn) CloseWithError(network.ConnErrorCode) error { return c.Close() }
func (c *Conn) ID() string                                 { return c.id }
func (c *Conn) IsClosed() bool                             { c.mu.Lock(); defer c.mu.Unlock(); return c.closed }
func (c *Conn) As(any) bool                                { return false }
func (c *Conn) LocalPeer() peer.ID                         { return c.h.id }
func (c *Conn) RemotePeer() peer.ID                        { return c.remote }
func (c *Conn) RemotePublicKey() ic.PubKey                 { return nil }
func (c *Conn) ConnState() network.ConnectionState         { return network.ConnectionState{} }
func (c *Conn) LocalMultiaddr() ma.Multiaddr               { return ma.StringCast("/ip4/10.0.0.1/tcp/4001") }
func (c *Conn) RemoteMultiaddr() ma.Multiaddr              { return c.raddr }
func (c *Conn) Scope() network.ConnScope                   { return &network.NullScope{} }
func (c *Conn) Stat() network.ConnStats {
	c.mu.Lock()
	defer c.mu.Unlock()
	return network.ConnStats{Stats: network.Stats{Direction: c.dir, Opened: c.opened, Limited: c.Limited}, NumStreams: len(c.streams)}
}
func (c *Conn) NewStream(ctx context.Context) (network.Stream, error) {
	return nil, errors.New("sim: Conn.NewStream not supported")
}
func (c *Conn) GetStreams() []network.Stream {
	c.mu.Lock()
	defer c.mu.Unlock()
	var out []network.Stream
	for _, s := range c.streams {
		if !s.isDone() {
			out = append(out, s)
		}
	}
	return out
}
func (c *Conn) closeStreams() {
	c.mu.Lock()
	c.closed = true
	ss := append([]*Stream(nil), c.streams...)
	c.mu.Unlock()
	for _, s := range ss {
		s.resetNoPoint()
	}
}

// Streams returns every stream ever opened on the connection (including finished ones).
func (c *Conn) Streams() []*Stream {
	c.mu.Lock()
	defer c.mu.Unlock()
	return append([]*Stream(nil), c.streams...)
}

// ---- network.Stream: an in-memory pipe ---------------------------------------------------------------------

type half struct {
	mu      gosync.Mutex
	buf     []byte
	wclosed bool // writer closed its side: reader sees EOF after the buffered data
	reset   bool
	sig     chan struct{}
}

func newHalf() *half { return &half{sig: make(chan struct{}, 1)} }

func (p *half) wake() {
	select {
	case p.sig <- struct{}{}:
	default:
	}
}

// Stream is one end of a bidirectional in-memory stream.
type Stream struct {
	c      *Conn
	id     string
	proto  protocol.ID
	dir    network.Direction
	in     *half // we read from
	out    *half // we write to
	opened time.Time
	peer   *Stream
	// counters for the oracles
	WasReset    bool // Reset was called on this end
	Writes      int
	rclosed     bool
	wclosedSelf bool
	name        string
	// Local marks the end that the implementation under test holds (points are taken there).
	Local bool
}

// NewStreamPair creates a stream on connection c. The first result is the local end (direction
// dir as seen by the host), the second the remote end. The local end is registered on the conn.
func NewStreamPair(c *Conn, proto protocol.ID, dir network.Direction) (*Stream, *Stream) {
	a, b := newHalf(), newHalf()
	c.h.mu.Lock()
	c.h.seq++
	id := fmt.Sprintf("s%d", c.h.seq)
	c.h.mu.Unlock()
	rdir := network.DirInbound
	if dir == network.DirInbound {
		rdir = network.DirOutbound
	}
	l := &Stream{c: c, id: id, proto: proto, dir: dir, in: a, out: b, opened: time.Now(), Local: true, name: id}
	r := &Stream{c: c, id: id + "r", proto: proto, dir: rdir, in: b, out: a, opened: time.Now(), name: id + "r"}
	l.peer, r.peer = r, l
	c.mu.Lock()
	c.streams = append(c.streams, l)
	c.mu.Unlock()
	return l, r
}

func (s *Stream) point(op string) {
	if s.Local && s.c != nil {
		s.c.h.point("stream." + op + " " + s.name)
	}
}

func (s *Stream) isDone() bool {
	s.in.mu.Lock()
	r := s.in.reset
	s.in.mu.Unlock()
	if r {
		return true
	}
	return s.rclosed && s.wclosedSelf
}

func (s *Stream) Read(p []byte) (int, error) {
	s.point("read")
	for {
		s.in.mu.Lock()
		switch {
		case s.in.reset:
			s.in.mu.Unlock()
			return 0, network.ErrReset
		case len(s.in.buf) > 0:
			n := copy(p, s.in.buf)
			s.in.buf = s.in.buf[n:]
			more := len(s.in.buf) > 0 || s.in.wclosed
			s.in.mu.Unlock()
			if more {
				s.in.wake()
			}
			return n, nil
		case s.in.wclosed:
			s.in.mu.Unlock()
			s.in.wake()
			return 0, io.EOF
		case s.rclosed:
			s.in.mu.Unlock()
			return 0, errors.New("sim: read on stream closed for reading")
		}
		s.in.mu.Unlock()
		<-s.in.sig
	}
}

func (s *Stream) Write(p []byte) (int, error) {
	s.point("write")
	s.out.mu.Lock()
	defer s.out.mu.Unlock()
	if s.out.reset {
		return 0, network.ErrReset
	}
	if s.out.wclosed {
		return 0, errors.New("sim: write on closed stream")
	}
	s.Writes++
	s.out.buf = append(s.out.buf, p...)
	s.out.wake()
	return len(p), nil
}

func (s *Stream) CloseWrite() error {
	s.out.mu.Lock()
	s.out.wclosed = true
	s.wclosedSelf = true
	s.out.mu.Unlock()
	s.out.wake()
	return nil
}

func (s *Stream) CloseRead() error {
	s.in.mu.Lock()
	s.rclosed = true
	s.in.mu.Unlock()
	s.in.wake()
	return nil
}

func (s *Stream) Close() error {
	s.point("close")
	_ = s.CloseWrite()
	_ = s.CloseRead()
	return nil
}

func (s *Stream) resetNoPoint() {
	for _, h := range []*half{s.in, s.out} {
		h.mu.Lock()
		h.reset = true
		h.mu.Unlock()
		h.wake()
	}
}

func (s *Stream) Reset() error {
	s.point("reset")
	s.WasReset = true
	s.resetNoPoint()
	return nil
}

// IsReset reports whether either end reset the stream.
func (s *Stream) IsReset() bool {
	s.in.mu.Lock()
	defer s.in.mu.Unlock()
	return s.in.reset
}

// WriteClosed reports whether this end closed its write side.
func (s *Stream) WriteClosed() bool {
	s.out.mu.Lock()
	defer s.out.mu.Unlock()
	return s.out.wclosed
}

// Buffered returns the bytes written by the other end and not yet read by this end.
func (s *Stream) Buffered() []byte {
	s.in.mu.Lock()
	defer s.in.mu.Unlock()
	return append([]byte(nil), s.in.buf...)
}

// RemoteClosedWrite reports whether the other end closed its write side (EOF pending).
func (s *Stream) RemoteClosedWrite() bool {
	s.in.mu.Lock()
	defer s.in.mu.Unlock()
	return s.in.wclosed
}

func (s *Stream) ResetWithError(network.StreamErrorCode) error { return s.Reset() }
func (s *Stream) SetDeadline(time.Time) error                  { return nil }
func (s *Stream) SetReadDeadline(time.Time) error              { return nil }
func (s *Stream) SetWriteDeadline(time.Time) error             { return nil }
func (s *Stream) ID() string                                   { return s.id }
func (s *Stream) Protocol() protocol.ID                        { return s.proto }
func (s *Stream) SetProtocol(id protocol.ID) error             { s.proto = id; return nil }
func (s *Stream) Stat() network.Stats                          { return network.Stats{Direction: s.dir, Opened: s.opened} }
func (s *Stream) Conn() network.Conn                           { return s.c }
func (s *Stream) Scope() network.StreamScope                   { return &network.NullScope{} }
func (s *Stream) Peer() *Stream                                { return s.peer }
func (s *Stream) Name() string                                 { return s.name }

// NotifieeCount is the number of network notifiees registered right now.
func (h *Host) NotifieeCount() int { h.mu.Lock(); defer h.mu.Unlock(); return len(h.notif) }

// HandlerCount is the number of stream handlers registered right now.
func (h *Host) HandlerCount() int { h.mu.Lock(); defer h.mu.Unlock(); return len(h.hand) }

// CountingBus wraps an event bus: it counts the subscriptions that are open and can make the
// FailAt-th Subscribe call (1-based; 0 = never) fail (constructor fault injection).
type CountingBus struct {
	event.Bus
	FailAt int
	mu     gosync.Mutex
	calls  int
	open   int
}

// ErrSubscribe is the injected Subscribe failure.
var ErrSubscribe = errors.New("sim: injected Subscribe failure")

func (b *CountingBus) Subscribe(t any, opts ...event.SubscriptionOpt) (event.Subscription, error) {
	b.mu.Lock()
	b.calls++
	fail := b.calls == b.FailAt
	b.mu.Unlock()
	if fail {
		return nil, ErrSubscribe
	}
	s, err := b.Bus.Subscribe(t, opts...)
	if err != nil {
		return s, err
	}
	b.mu.Lock()
	b.open++
	b.mu.Unlock()
	return &countedSub{Subscription: s, b: b}, nil
}

// Open is the number of subscriptions that were created and not closed.
func (b *CountingBus) Open() int { b.mu.Lock(); defer b.mu.Unlock(); return b.open }

// Calls is the number of Subscribe calls seen.
func (b *CountingBus) Calls() int { b.mu.Lock(); defer b.mu.Unlock(); return b.calls }

type countedSub struct {
	event.Subscription
	b    *CountingBus
	once gosync.Once
}

func (s *countedSub) Close() error {
	s.once.Do(func() { s.b.mu.Lock(); s.b.open--; s.b.mu.Unlock() })
	return s.Subscription.Close()
}
