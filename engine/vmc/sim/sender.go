//go:build verif

package sim

import (
	"context"
	"errors"
	"fmt"
	"sort"
	gosync "sync"

	"github.com/libp2p/go-libp2p/core/peer"
	ma "github.com/multiformats/go-multiaddr"

	"github.com/libp2p/go-libp2p-kad-dht/internal/vmc/kid"
	pb "github.com/libp2p/go-libp2p-kad-dht/pb"
	recpb "github.com/libp2p/go-libp2p-record/pb"
)

// ---- pending events (E3) -------------------------------------------------------------------------------

// Pending is one parked outbound interaction of the node under test: a dial, a request
// (SendRequest) or a one-way message (SendMessage).
type Pending struct {
	Seq   int
	Kind  string // "dial", "req", "msg"
	To    peer.ID
	Msg   *pb.Message
	Proto string
	ctx   context.Context
	reply chan result
	done  bool
}

type result struct {
	msg *pb.Message
	err error
}

// LogEntry records what the simulated network saw, in order.
type LogEntry struct {
	N     int
	What  string // "dial", "req", "msg", "deliver", "abandon"
	Kind  string
	To    peer.ID
	Seq   int
	Type  pb.Message_MessageType
	Key   string
	Err   string
	Resp  *pb.Message
	Msg   *pb.Message
	Proto string
	// Instant marks a delivery that was not a parked event (successful instant dial).
	Instant bool
}

// ErrSimTimeout is what a silent peer's request ends with (stands for the 10 s read timeout).
var ErrSimTimeout = errors.New("sim: timed out reading response")

// ErrSimDial is a failed dial.
var ErrSimDial = errors.New("sim: dial failed")

// ErrSimRequest is a failed request (stream reset by the remote peer).
var ErrSimRequest = errors.New("sim: request failed (stream reset)")

// Net is the simulated network seen through the message sender and the host's dial hook. Every
// interaction parks as a Pending event until the driver delivers it.
type Net struct {
	mu      gosync.Mutex
	seq     int
	pending []*Pending
	Log     []LogEntry
	World   *World
	// InstantDial: dials to peers whose behaviour does not fail dials succeed at once (no event).
	InstantDial bool
	// Instant: nothing is parked at all; every dial, request and message is answered at once as the
	// world prescribes (for harnesses that enumerate inputs rather than arrival orders).
	Instant bool
}

func NewNet(w *World) *Net { return &Net{World: w, InstantDial: true} }

func (n *Net) logf(e LogEntry) {
	e.N = len(n.Log)
	n.Log = append(n.Log, e)
}

func (n *Net) park(ctx context.Context, kind string, to peer.ID, msg *pb.Message, proto string) (*pb.Message, error) {
	if n.Instant {
		n.mu.Lock()
		n.seq++
		seq := n.seq
		e := LogEntry{What: kind, Kind: kind, To: to, Seq: seq, Msg: msg, Proto: proto}
		if msg != nil {
			e.Type, e.Key = msg.GetType(), string(msg.GetKey())
		}
		n.logf(e)
		var r result
		if kind == "dial" {
			if pe := n.World.Peers[to]; pe == nil || pe.Behaviour == BDialFail {
				r.err = ErrSimDial
			}
		} else {
			r.msg, r.err = n.World.Answer(to, msg, proto)
			if kind == "msg" {
				r.msg = nil
			}
		}
		d := LogEntry{What: "deliver", Kind: kind, To: to, Seq: seq, Resp: r.msg, Msg: msg, Proto: proto, Type: e.Type, Key: e.Key}
		if r.err != nil {
			d.Err = r.err.Error()
		}
		n.logf(d)
		n.mu.Unlock()
		return r.msg, r.err
	}
	n.mu.Lock()
	n.seq++
	p := &Pending{Seq: n.seq, Kind: kind, To: to, Msg: msg, Proto: proto, ctx: ctx, reply: make(chan result, 1)}
	n.pending = append(n.pending, p)
	e := LogEntry{What: kind, Kind: kind, To: to, Seq: p.Seq, Msg: msg, Proto: proto}
	if msg != nil {
		e.Type, e.Key = msg.GetType(), string(msg.GetKey())
	}
	n.logf(e)
	n.mu.Unlock()
	select {
	case r := <-p.reply:
		return r.msg, r.err
	case <-ctx.Done():
		n.mu.Lock()
		if !p.done {
			p.done = true
			n.remove(p)
			n.logf(LogEntry{What: "abandon", Kind: kind, To: to, Seq: p.Seq})
			n.mu.Unlock()
			return nil, ctx.Err()
		}
		n.mu.Unlock()
		// delivered concurrently with the cancellation: the delivery wins (it was logged first)
		r := <-p.reply
		return r.msg, r.err
	}
}

func (n *Net) remove(p *Pending) {
	for i, q := range n.pending {
		if q == p {
			n.pending = append(n.pending[:i], n.pending[i+1:]...)
			return
		}
	}
}

// Dial is the host's DialFn.
func (n *Net) Dial(ctx context.Context, p peer.ID) error {
	pe := n.World.Peers[p]
	if n.Instant {
		_, err := n.park(ctx, "dial", p, nil, "")
		return err
	}
	if n.InstantDial && pe != nil && pe.Behaviour != BDialFail && pe.Behaviour != BSlowDial {
		// a successful dial is not an observable fact of the lookup: no event
		n.mu.Lock()
		n.seq++
		n.logf(LogEntry{What: "dial", Kind: "dial", To: p, Seq: n.seq})
		n.logf(LogEntry{What: "deliver", Kind: "dial", To: p, Seq: n.seq, Instant: true})
		n.mu.Unlock()
		return nil
	}
	// failing dials (dial-fail peers, unknown peers) are parked: every failure is its own step
	_, err := n.park(ctx, "dial", p, nil, "")
	return err
}

// PendingEvents returns the parked events in canonical order (by peer kad-distance-independent
// key: peer id bytes, kind, message type, sequence).
func (n *Net) PendingEvents() []*Pending {
	n.mu.Lock()
	defer n.mu.Unlock()
	out := append([]*Pending(nil), n.pending...)
	sort.SliceStable(out, func(i, j int) bool {
		if out[i].To != out[j].To {
			return out[i].To < out[j].To
		}
		if out[i].Kind != out[j].Kind {
			return out[i].Kind < out[j].Kind
		}
		return out[i].Seq < out[j].Seq
	})
	return out
}

// Label renders a pending event for choice labels.
func (n *Net) Label(p *Pending) string {
	name := n.World.Name(p.To)
	if p.Msg != nil {
		return fmt.Sprintf("%s:%s:%s", p.Kind, name, p.Msg.GetType())
	}
	return fmt.Sprintf("%s:%s", p.Kind, name)
}

// Deliver completes a pending event with the outcome the world prescribes for that peer.
func (n *Net) Deliver(p *Pending) {
	var r result
	switch p.Kind {
	case "dial":
		if pe := n.World.Peers[p.To]; pe == nil || pe.Behaviour == BDialFail {
			r.err = ErrSimDial
		}
	default:
		r.msg, r.err = n.World.Answer(p.To, p.Msg, p.Proto)
		if p.Kind == "msg" {
			r.msg = nil
		}
	}
	n.DeliverResult(p, r.msg, r.err)
}

// DeliverResult completes a pending event with an explicit outcome.
func (n *Net) DeliverResult(p *Pending, msg *pb.Message, err error) {
	n.mu.Lock()
	if p.done {
		n.mu.Unlock()
		return
	}
	p.done = true
	n.remove(p)
	e := LogEntry{What: "deliver", Kind: p.Kind, To: p.To, Seq: p.Seq, Resp: msg, Msg: p.Msg, Proto: p.Proto}
	if p.Msg != nil {
		e.Type, e.Key = p.Msg.GetType(), string(p.Msg.GetKey())
	}
	if err != nil {
		e.Err = err.Error()
	}
	n.logf(e)
	n.mu.Unlock()
	p.reply <- result{msg, err}
}

// Sender returns a message sender bound to a protocol label (so that the log knows which
// inner DHT of a dual DHT spoke).
func (n *Net) Sender(proto string) *Sender { return &Sender{n: n, proto: proto} }

// Sender implements pb.MessageSenderWithDisconnect on top of Net.
type Sender struct {
	n     *Net
	proto string
	// Disconnects counts OnDisconnect notifications.
	Disconnects int
}

var _ pb.MessageSenderWithDisconnect = (*Sender)(nil)

func (s *Sender) SendRequest(ctx context.Context, p peer.ID, m *pb.Message) (*pb.Message, error) {
	return s.n.park(ctx, "req", p, m, s.proto)
}

func (s *Sender) SendMessage(ctx context.Context, p peer.ID, m *pb.Message) error {
	_, err := s.n.park(ctx, "msg", p, m, s.proto)
	return err
}

func (s *Sender) OnDisconnect(ctx context.Context, p peer.ID) { s.Disconnects++ }

// ---- worlds -----------------------------------------------------------------------------------------------

// Behaviours of simulated peers.
const (
	BHonest     = "honest"         // K nearest peers of its knowledge (never requester)
	BAll        = "all"            // everything it knows
	// BAllThenFail answers its first three requests like BAll and fails every later one (a peer that
	// breaks down in the middle of being crawled).
	BAllThenFail = "all-then-fail"
	BListsSelf  = "lists-self"     // honest + itself
	BListsReq   = "lists-req"      // honest + the requester
	BListsFar   = "lists-far"      // honest + a peer nobody else knows (far, undialable)
	BDup        = "dup"            // honest answer with every entry twice
	BFlood      = "flood"          // 2K+3 entries: honest ones first, then fillers
	BFloodFront = "flood-front"    // 2K+3 entries: fillers first, honest ones last (beyond the 2K cap)
	BFiltered   = "lists-filtered" // honest + a peer the query filter rejects
	BDialFail   = "dial-fail"
	BReqFail    = "req-fail"
	BSilent     = "silent"    // request ends with a read timeout
	BEmpty      = "empty"     // answers with no closer peers
	BSlowDial   = "slow-dial" // honest, but the dial is a parked event (succeeds when delivered)
	BHang       = "hang"      // requests are never answered: they end when their context does
)

// Peer is one simulated remote peer.
type Peer struct {
	ID        peer.ID
	Name      string
	Addrs     []ma.Multiaddr
	Behaviour string
	Knows     []peer.ID
	Records   map[string][]byte          // key -> raw record bytes value (record value)
	RecordKey map[string]string          // key -> embedded key to use (mis-keyed records)
	Providers map[string][]peer.AddrInfo // key -> providers it reports
	// received messages that carry state
	// PutBehaviour: \"\" accepts PUT_VALUE / ADD_PROVIDER, \"fail\" resets, \"hang\" times out.
	PutBehaviour string
	GotPuts      []*pb.Message
	GotProvs     []*pb.Message
	// Requests counts the requests answered so far (BAllThenFail).
	Requests int
	// OmitAddrs: this peer names its closer peers by id only (no addresses in its answers).
	OmitAddrs bool
}

// World describes the simulated network.
type World struct {
	Self     peer.ID
	K        int
	Peers    map[peer.ID]*Peer
	Order    []peer.ID // creation order
	Far      peer.ID   // the peer BListsFar refers to
	Filtered peer.ID   // the peer the query filter rejects
	Fillers  []peer.ID // filler ids used by BFlood
}

func NewWorld(self peer.ID, k int) *World {
	return &World{Self: self, K: k, Peers: map[peer.ID]*Peer{}}
}

// Add adds a peer.
func (w *World) Add(name string, id peer.ID, behaviour string) *Peer {
	p := &Peer{ID: id, Name: name, Behaviour: behaviour, Addrs: []ma.Multiaddr{defaultAddr(id)},
		Records: map[string][]byte{}, RecordKey: map[string]string{}, Providers: map[string][]peer.AddrInfo{}}
	w.Peers[id] = p
	w.Order = append(w.Order, id)
	return p
}

// Name returns the short name of a peer id.
func (w *World) Name(id peer.ID) string {
	if id == w.Self {
		return "self"
	}
	if p, ok := w.Peers[id]; ok {
		return p.Name
	}
	if id == w.Far {
		return "far"
	}
	if id == w.Filtered {
		return "filtered"
	}
	for i, f := range w.Fillers {
		if f == id {
			return fmt.Sprintf("filler%d", i)
		}
	}
	if len(id) < 3 {
		return fmt.Sprintf("?%x", []byte(id))
	}
	return fmt.Sprintf("?%x", []byte(id)[len(id)-3:])
}

// Names maps a list of ids to names.
func (w *World) Names(ids []peer.ID) []string {
	out := make([]string, len(ids))
	for i, id := range ids {
		out[i] = w.Name(id)
	}
	return out
}

// SortByDistance sorts ids by XOR distance of their kad ids to key (raw key bytes).
func SortByDistance(ids []peer.ID, key string) []peer.ID {
	out := append([]peer.ID(nil), ids...)
	sort.SliceStable(out, func(i, j int) bool { return kid.Xor([]byte(out[i]), []byte(out[j]), []byte(key)) < 0 })
	return out
}

func (w *World) info(id peer.ID) peer.AddrInfo {
	if p, ok := w.Peers[id]; ok {
		return peer.AddrInfo{ID: id, Addrs: p.Addrs}
	}
	return peer.AddrInfo{ID: id, Addrs: []ma.Multiaddr{defaultAddr(id)}}
}

// CloserIDs is the list of peer ids `to` names as closer peers for key, by its behaviour.
func (w *World) CloserIDs(to peer.ID, key string) []peer.ID {
	p := w.Peers[to]
	var known []peer.ID
	for _, k := range p.Knows {
		if k != w.Self && k != to {
			known = append(known, k)
		}
	}
	honest := SortByDistance(known, key)
	if len(honest) > w.K {
		honest = honest[:w.K]
	}
	switch p.Behaviour {
	case BAll, BAllThenFail:
		return SortByDistance(known, key)
	case BListsSelf:
		return append(append([]peer.ID{}, honest...), to)
	case BListsReq:
		return append([]peer.ID{w.Self}, honest...)
	case BListsFar:
		return append(append([]peer.ID{}, honest...), w.Far)
	case BFiltered:
		return append([]peer.ID{w.Filtered}, honest...)
	case BDup:
		var out []peer.ID
		for _, h := range honest {
			out = append(out, h, h)
		}
		return out
	case BFlood:
		out := append([]peer.ID{}, honest...)
		for i := 0; len(out) < 2*w.K+3; i++ {
			out = append(out, w.Fillers[i%len(w.Fillers)])
		}
		return out
	case BFloodFront:
		var out []peer.ID
		for i := 0; len(out) < 2*w.K+3-len(honest); i++ {
			out = append(out, w.Fillers[i%len(w.Fillers)])
		}
		return append(out, honest...)
	case BEmpty:
		return nil
	}
	return honest
}

// Answer computes the response of peer `to` to request m.
func (w *World) Answer(to peer.ID, m *pb.Message, proto string) (*pb.Message, error) {
	p := w.Peers[to]
	if p == nil {
		return nil, ErrSimRequest
	}
	p.Requests++
	switch p.Behaviour {
	case BReqFail:
		return nil, ErrSimRequest
	case BAllThenFail:
		if p.Requests > 3 {
			return nil, ErrSimRequest
		}
	case BSilent:
		return nil, ErrSimTimeout
	}
	resp := pb.NewMessage(m.GetType(), m.GetKey(), m.GetClusterLevel())
	key := string(m.GetKey())
	closer := func() {
		ids := w.CloserIDs(to, key)
		infos := make([]peer.AddrInfo, len(ids))
		for i, id := range ids {
			infos[i] = w.info(id)
			if w.Peers[to] != nil && w.Peers[to].OmitAddrs {
				infos[i].Addrs = nil
			}
		}
		resp.CloserPeers = pb.RawPeerInfosToPBPeers(infos)
		for _, cp := range resp.CloserPeers {
			cp.Connection = pb.Message_CAN_CONNECT
		}
	}
	switch m.GetType() {
	case pb.Message_FIND_NODE:
		closer()
	case pb.Message_PING:
	case pb.Message_GET_VALUE:
		closer()
		if v, ok := p.Records[key]; ok {
			rk := key
			if alt, ok := p.RecordKey[key]; ok {
				rk = alt
			}
			resp.Record = MakeRecord(rk, v)
		}
	case pb.Message_PUT_VALUE:
		if p.PutBehaviour == "fail" {
			return nil, ErrSimRequest
		} else if p.PutBehaviour == "hang" {
			return nil, ErrSimTimeout
		}
		p.GotPuts = append(p.GotPuts, m)
		resp.Record = m.GetRecord()
	case pb.Message_GET_PROVIDERS:
		closer()
		if provs, ok := p.Providers[key]; ok {
			resp.ProviderPeers = pb.RawPeerInfosToPBPeers(provs)
		}
	case pb.Message_ADD_PROVIDER:
		if p.PutBehaviour == "fail" {
			return nil, ErrSimRequest
		} else if p.PutBehaviour == "hang" {
			return nil, ErrSimTimeout
		}
		p.GotProvs = append(p.GotProvs, m)
		return nil, nil
	}
	return resp, nil
}

// MakeRecord builds a record with the given embedded key and value.
func MakeRecord(key string, value []byte) *recpb.Record {
	return &recpb.Record{Key: []byte(key), Value: value}
}
