//go:build verif

// Package sim is the simulation substrate shared by the harnesses: validator, fake host /
// network / streams, simulated message sender and worlds.
package sim

import (
	"errors"
	"strconv"
	"strings"
	"time"

	record "github.com/libp2p/go-libp2p-record"
)

// SeqValidator validates values of the form "<seq>:<payload>" for keys "/v/<name>".
// A value is valid iff seq parses as a non-negative integer, the payload does not start with
// "bad", and (when the payload has the form "for=<name>|...") the name matches the key.
// Select picks the highest seq; ties go to the first candidate.
type SeqValidator struct{}

var _ record.Validator = SeqValidator{}

// Seq parses the sequence number of a value (-1 if malformed).
func Seq(v []byte) int {
	s := string(v)
	i := strings.IndexByte(s, ':')
	if i <= 0 {
		return -1
	}
	n, err := strconv.Atoi(s[:i])
	if err != nil || n < 0 {
		return -1
	}
	return n
}

// Val builds a valid value.
func Val(seq int, payload string) []byte { return []byte(strconv.Itoa(seq) + ":" + payload) }

func (SeqValidator) Validate(key string, value []byte) error {
	ns, name, err := record.SplitKey(key)
	if err != nil || ns != "v" {
		return errors.New("seqvalidator: not a /v/ key")
	}
	if Seq(value) < 0 {
		return errors.New("seqvalidator: malformed value")
	}
	payload := string(value)[strings.IndexByte(string(value), ':')+1:]
	if strings.HasPrefix(payload, "bad") {
		return errors.New("seqvalidator: invalid payload")
	}
	if strings.HasPrefix(payload, "until=") {
		// valid only until a (virtual) instant, like an IPNS record's EOL
		t := payload[6:]
		if i := strings.IndexByte(t, '|'); i >= 0 {
			t = t[:i]
		}
		ns, err := strconv.ParseInt(t, 10, 64)
		if err != nil || time.Now().UnixNano() > ns {
			return errors.New("seqvalidator: record past its end of life")
		}
	}
	if strings.HasPrefix(payload, "for=") {
		want := payload[4:]
		if i := strings.IndexByte(want, '|'); i >= 0 {
			want = want[:i]
		}
		if want != name {
			return errors.New("seqvalidator: value bound to another key")
		}
	}
	return nil
}

func (SeqValidator) Select(key string, vals [][]byte) (int, error) {
	best, bi := -1, -1
	for i, v := range vals {
		if s := Seq(v); s > best {
			best, bi = s, i
		}
	}
	if bi < 0 {
		return 0, errors.New("seqvalidator: no valid value")
	}
	return bi, nil
}

// Validator returns the namespaced validator used by the harnesses ("/v/...").
func Validator() record.NamespacedValidator {
	return record.NamespacedValidator{"v": SeqValidator{}}
}
